//! Native helper built against the scratch copy of hdwallet (real dependencies, repository toolchain).
//! Reads one command per line from stdin, answers one line per command. Used by the driver's
//! prechecks to validate, concretely and exhaustively over the 2048 indices, the contract that the
//! word-list stubs assume ("search(word(i)) = i; nothing else is found").
use hdwallet::mnemonic::Mnemonic;
use std::io::{self, BufRead, Write};

fn main() {
    let stdin = io::stdin();
    let mut out = io::BufWriter::new(io::stdout());
    for line in stdin.lock().lines() {
        let line = line.unwrap();
        let (cmd, arg) = line.split_once('\t').unwrap_or((line.as_str(), ""));
        match cmd {
            "parse" => {
                let r = std::panic::catch_unwind(|| Mnemonic::from_phrase(arg).map(|m| (m.to_phrase(), m.mnemonic_length())));
                match r {
                    Ok(Ok((p, n))) => writeln!(out, "ok\t{n}\t{p}").unwrap(),
                    Ok(Err(_)) => writeln!(out, "err").unwrap(),
                    Err(_) => writeln!(out, "panic").unwrap(),
                }
            }
            _ => writeln!(out, "unknown").unwrap(),
        }
    }
}
