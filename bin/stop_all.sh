#!/usr/bin/env bash
# development aid: stop every running check (driver, cargo-kani, cbmc)
for p in $(pgrep -f "lib/[d]river.py"); do kill "$p" 2>/dev/null; done
sleep 1
killall -9 cbmc cargo-kani kani-driver goto-instrument 2>/dev/null
true
