#!/usr/bin/env python3
"""Regenerates /verif/MANIFEST.json from the harness registry and the per-property notes below."""
import json
import sys
from pathlib import Path

VERIF = Path(__file__).resolve().parent.parent
sys.path.insert(0, str(VERIF / "lib"))
import registry  # noqa: E402

TECH = "bounded model checking of the compiled code (Kani -> CBMC/CaDiCaL), symbolic inputs, uninterpreted stubs"

CLAIMS = {
    "C01": ("Solver-decided, bounded: the length table for all 2^64 word counts; phrase unpacking bit-exact for all 2049^W index "
            "sequences (W = 12/15/18/21/24; 2048 = unknown word) x all 2^256 checksum-hash values; rejection of every other word "
            "count 0..40; to_phrase for all 64-byte buffers and the five lengths; whitespace splitting for all ASCII strings of "
            "3/5/7 bytes. Parse and print are each shown equal to the same bit-level BIP-39 function.",
            "Word list and SHA-256 are uninterpreted stubs; the real 2048-word list is validated natively (concrete, exhaustive over "
            "the 2048 indices) by the wordlist_contract precheck. SHA-256 itself trusted. Whole phrases are not pushed through "
            "split_whitespace and the real binary search inside one query."),
    "C02_unused": ("Solver-decided wiring only: the arguments handed to PBKDF2 (password = canonical phrase of the stored entropy, salt = "
            "'mnemonic' + NFKD(passphrase), 2048 rounds, 64-byte output returned unchanged, PRF = HMAC-SHA512).",
            "PBKDF2/HMAC/SHA-512 arithmetic trusted (pinned by the suite's four vectors); passphrase bound in the evidence."),
    "C03": ("Solver-decided, bounded by depth: BIP-32 master key from seeds of 16/32/64/65/96 bytes (quick: 64 and 65), and one derivation step in hardened and in normal form (thorough): data selection, index encoding, IL/IR split, (IL + k) mod n, chain-code carry and the error cases, for all seeds, indices and HMAC outputs.",
            "HMAC-SHA512 is uninterpreted below the compression function, point multiplication is uninterpreted; both trusted. Depth 2 and mixed paths are attempts; deeper paths repeat the same loop body on a state the symbolic HMAC outputs already make arbitrary."),
    "C04": ("Solver-decided: PrivateKey::new accepts a 32-byte string iff 0 < value < n (all 2^256 values, real k256 comparison code), other lengths 0..64 are rejected or read as the same integer; the address is bytes 12..32 of one Keccak over exactly the 64 coordinate bytes, for the encoding of this secret's point and (encoding abstracted) for every 65-byte encoding.",
            "secret*G and Keccak-256 are uninterpreted (trusted); EIP-55 casing is ethaddr's Display and not decided."),
    "C06": ('Solver-decided structure, for all 2^256 values of every integer field, recipient present/absent, either parity: exact field order, EIP-155 tail and (v, r, s) tail of legacy transactions (all four signed/chain-id combinations); type byte || ONE list of exactly [chainId, nonce, fees, gas, to, value, data, accessList (, yParity, r, s)] for EIP-2930 and EIP-1559, signed and unsigned; calldata of symbolic length 0..40 and access lists of 0..2 entries reach their leaves unchanged; populated access lists are [[address, [keys]], ...] in declaration order for shapes up to 2 entries x 2 keys with symbolic addresses and keys; the signed digest of every kind is one Keccak over exactly the unsigned payload; Transaction::encode equals the per-kind encoder (thorough); signature accessors.',
            'Assume-guarantee: rlp::uint / rlp::bytes / rlp::list / rlp::iter / AccessList::rlp_encode are recorders in the structure queries and their contracts are decided in C07; the specification identifies leaves by the placeholder found at each list position, so it does not depend on evaluation order. Counterexamples are confirmed natively against an independent reference RLP encoder. JSON -> struct: the kind dispatch in Deserialize for Transaction cannot be compiled by Kani 0.68 (internal compiler error on the niche-encoded Result<Eip1559Transaction, _>, attempt c06_kind_dispatch), field binding is serde-derive; sender recovery is cryptography.'),
    "C07": ("Solver-decided: length header canonical and minimal for all 2^64 lengths and both kinds; byte strings of every length 0..60 (one query) and 0, 1, 2, 55..57, 128 (quick), 3, 20, 32, 33, 54, 64, 100, 255..257 (thorough) with all contents; integers for all 2^256 values; lists/iterators on both sides of the 55/56 boundary and with a two-byte length.",
            "Payload content is symbolic up to 257 bytes; longer payloads are covered by the header query for every length plus the absence of any other length-dependent branch in rlp::bytes."),
    "C08": ('Solver-decided in parts: atomic encodings (bytesN alignment and exact length, dynamic bytes and strings hashed, intN/uintN words), the final 0x1901 preimage with accessors and error propagation.',
            "HashMap look-up replaced by a table look-up with the same contract; Keccak and the hex-string leaf uninterpreted. NOT decided (attempts kept in the registry, none finishes under the caps): encodeType (symbolic graphs, the dependency closure alone with the rendering cut away, and a family of concrete graphs: the BTreeMap of sub-types), hashStruct's walk over the JSON object (serde_json::Map and Value drop glue), the member type grammar (recursive parser, no per-function recursion bound in CBMC 6), arrays, whole documents. A regression of the repaired encodeType defect (D2) is therefore not caught."),
    "C09": ("Solver-decided for atoms: uintN/intN ranges for all 2^256 values x all 32 widths; bytesN exact length (N-1, N, N+1 for N in {1, 4, 31, 32}); a document without a domain type; negative JSON integers for unsigned fields (with C13's c13_prim_i64).",
            'The number parser is abstracted in the range queries and decided separately in C13. Fixed-array size, wrong JSON kind for bool/address, undefined struct references and missing/undeclared members (struct_hash over a JSON object) are attempts that do not finish under the caps and are NOT part of the claim.'),
    "C10": ("Solver-decided: exactly one Keccak invocation over 0x19 'Ethereum Signed Message:\\n' || decimal(len) || message, digest returned unchanged, for every length 0..24 in one query and lengths 0, 9, 10 separately, all contents (non-UTF-8 included); the decimal rendering is the real std formatting code.",
            "Keccak uninterpreted (trusted). Lengths above 24 (hence 3+ digit lengths) are outside: the message is copied at an offset that depends on the formatted length (memcpy at a symbolic offset; 32 bytes already exceed 16 GB)."),
    "C11": ('Solver-decided in parts: v = 35 + 2c + parity exactly for every chain id for which that fits 256 bits, 27/28 without; the unsigned legacy payload ends in (c, 0, 0) and is what is hashed; typed payloads start with c and the signed digest is one Keccak over exactly that payload (structure queries of C06 with c symbolic).',
            'The CLI guard in cmd::sign::run is NOT decided: a harness with everything around the guard as recorders exists (c11_cli_guard) but Kani 0.68 cannot compile that function (internal compiler error on the niche-encoded Result<Transaction, _>). Known finding D7 (overflow for c > (2^256-37)/2) is reported, not suppressed elsewhere.'),
    "C12": ("Solver-decided at the library boundary with getentropy(3) as a symbolic environment: unsupported lengths fail without "
            "an entropy request, a negative status is an error, otherwise exactly one request of 4L/3 bytes whose bytes are the "
            "entropy verbatim, checksum over exactly them, reported length L.",
            "The CLI (printing, vanity retries, threads) is process-level and not decided."),
    "C13": ("Solver-decided at the deserializers hdwallet owns: JSON numbers (serialization::num): every u64 through the production instantiation D = serde_json::Value, every u64/i64 and the sign guard through serde's primitive deserializers, the empty string; dynamic byte fields (serialization::bytes with D = serde_json::Value and the real hex decoder): every ASCII string of 2 and 4 bytes (3, 6 and 8 in the thorough tier) -- Ok iff 0x + an even number of hex digits, value exact.",
            "Error message text is cut (core::fmt::write writes nothing) in the string queries. Numeric strings of 1+ characters, storage keys and recipients still exceed the caps (ethnum's 256-bit string parser, 32-byte hex decode; attempts c13n_*). Symbolic floats do not finish. That every struct field is bound to these deserializers (serde derive) is not decided."),
    "C14": ("Solver-decided: one path component for every ASCII string up to 12 bytes (all canonical spellings, the 2^31 and 2^32 boundaries), and Path::from_str for every ASCII string of 2 and 3 bytes (missing root, empty and trailing components).",
            "Longer paths exceed the memory cap even with the memchr reference stubs; Display output is std integer formatting; Path::for_index builds its text with format!. All three are outside the claim."),
    "C15": ("Solver-decided for parsing: every ASCII string of exactly 130 and 132 bytes (Ok iff [0x] + 130 hex digits, v in "
            "{1b,1c}, 0 < r,s < n, fields equal the digits) and every other length 0..140 (always Err, never a panic).",
            "That Display emits exactly that text ({:064x} on U256: 64 generic 256-bit divisions) is out of reach; the sign|hash "
            "pipeline is process-level."),
    "C16": ("Solver-decided for the account selection every command shares (cmd::AccountOptions::private_key): the seed is taken from the given "
            "mnemonic with the given password (every ASCII password of 0..3 bytes, so leading/trailing white space counts); without --hd-path "
            "the key is derived along for_index(account_index) for all 2^64 account indices, with --hd-path along the parsed path whatever the account "
            "index is; a malformed --hd-path (or, without --hd-path, a refused index) is an error and nothing is derived; the derivation's key or error "
            "is returned unchanged.",
            "Mnemonic::seed, hdk::Path::for_index and hdk::derive_slice are recorders here (decided / attempted in C02, C14, C03). NOT decided: what "
            "each command prints (println!, EIP-55, hex), clap's flag/environment parsing and the conflict between the two selectors, and that "
            "`sign` signs what `hash` prints (cmd::sign::run / cmd::hash::run cannot be compiled by Kani 0.68: ICE on Result<Transaction, _>)."),
    "C17": ("Solver-decided, bounded: absence of panics, arithmetic overflow, out-of-bounds access and unbounded loops (unwinding "
            "assertions on) in every parser/encoder harness of the other properties, attributed to C17.",
            "Whole JSON documents, clap, threads and the vanity search loop are outside. Known finding D7 reported."),
    "C18": ("Solver-decided for parsing and matching: every ASCII prefix text up to 7 bytes x every 20-byte address; 40/41-digit "
            "prefixes.",
            "The search loop, worker threads and which account is searched are process-level and not decided."),
    "C19": ("Solver-decided at the library boundary (cmd::permissive_hex, hex::encode, hex::decode): hdwallet's white-space filter and prefix handling for every ASCII string of 4, 8 and 12 bytes (3, 6, 16 thorough) and for one non-ASCII character (four Unicode white-space characters, two non-white-space ones) at every position, with the decoder abstracted; with the real decoder every ASCII string of 0..4 bytes (0..6 and the non-ASCII palette thorough): Ok iff optional 0x + an even number of hex digits of either case once white space is removed, value exact; decode(respelling(encode(b))) = b for 1 byte (0, 3 thorough) with lower-case two-digit encoding, per-digit case, optional prefix and one inserted white-space character symbolic.",
            "String's growth policy is replaced by a fixed pre-allocation (String::new/push/push_str stubs; contents unchanged, overflow asserted). stdin/stdout plumbing of cmd::hex::run (read_input, str::from_utf8, println!, write_all) is process-level and not decided; inputs longer than the stated bounds are outside."),
    "C20": ("Solver-decided: verify_domain_type for every declaration of up to 3 members (quick; up to 5 in the thorough tier) with names from the five standard ones plus a foreign one and types from eight kinds (orderings, repeats, wrong types), and a missing domain type.",
            "HashMap look-up replaced by a table look-up. The type *strings* are parsed by MemberKind::from_str, which is not decided (C08). 'Hashed according to C08' is C08's claim."),
}

NOT_APPLICABLE = {
    "C05": "validity/recoverability/low-s/RFC 6979 are properties of HMAC-DRBG, modular inversion and scalar multiplication inside "
           "k256/ecdsa: no bound brings 256x256-bit modular multiplication within reach of bit-blasting, and hdwallet's own part is a "
           "two-line delegation whose only cut point (a generic trait method) Kani 0.68 cannot stub; the accessors are decided in C06/C15",
}


def main():
    claimed = sorted({p for h in registry.HARNESSES for p in h["props"]} & set(CLAIMS) - set(registry.WITHDRAWN))
    checks = []
    for pid in claimed:
        text, note = CLAIMS[pid]
        checks.append({
            "property_id": pid,
            "quick_cmd": f"bin/check {pid} --tier quick",
            "thorough_cmd": f"bin/check {pid} --tier thorough",
            "evidence_file": f"evidence/{pid}.json",
            "replay_cmd_template": f"bin/check {pid} --replay {{path}}",
            "engine": "kani-cbmc",
            "level_claimed": {"category": "model_checking", "text": text + " Bounded: no result is a proof beyond the stated bounds.",
                              "design_ref": f"DESIGN.md section 2, {pid}"},
            "level_note": note,
            "technique": TECH,
        })
    na = dict(NOT_APPLICABLE)
    na.update(registry.WITHDRAWN)
    manifest = {
        "version": 1,
        "setup_cmd": "bin/setup.sh",
        "hooks": {
            "guard": "cfg(kani)",
            "enable": "no hooks live in /repo: every check copies /repo's working tree to a scratch directory and appends "
                      "`#[cfg(kani)] #[path = ...] mod __verif;` lines to the copy, so the guard only ever exists there",
            "baseline_off_cmd": "cd /repo && cargo test --workspace --no-fail-fast --offline",
            "source_commits": [],
            "add_only": True,
        },
        "engines": [{
            "name": "kani-cbmc", "path": "lib/driver.py",
            "serves_properties": claimed,
            "kind_free_text": "Kani 0.68.0 compiles the real functions of /repo's working tree (plus spliced harness modules) to a "
                              "goto program; CBMC 6.11.0 + CaDiCaL decide the assertions over symbolic inputs within stated unwind "
                              "bounds; counterexamples are replayed natively (Kani concrete playback, dev and release) before "
                              "being reported",
        }],
        "checks": checks,
        "not_applicable": [{"property_id": k, "reason": v} for k, v in sorted(na.items())],
        "notes": "Exit codes: 0 = all queries discharged and non-vacuous; 1 = reproduced violation (VIOLATION line); 2 = inconclusive "
                 "(timeout, memory cap, harness no longer compiles, counterexample that does not reproduce natively). Genuine defects "
                 "found and repaired are listed in known_findings.json ('fixed'); D7 is a recorded known finding.",
    }
    (VERIF / "MANIFEST.json").write_text(json.dumps(manifest, indent=1) + "\n")
    print("claimed:", claimed)
    print("not applicable:", sorted(na))


if __name__ == "__main__":
    main()
