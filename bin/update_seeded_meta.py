#!/usr/bin/env python3
"""Updates seeded/*/meta.json (field detected_by) from mutation_test.sh logs: usage update_seeded_meta.py <log>..."""
import json, re, sys
from pathlib import Path
root = Path("/verif/seeded")
for log in sys.argv[1:]:
    text = Path(log).read_text()
    for m in re.finditer(r"--- (\S+) (\S+) (\S+) \S+\n(.*?)(?=\n--- |\nBATCH DONE|\Z)", text, re.S):
        name, prop, tier, body = m.groups()
        mm = re.search(r"MUTATION \S+ property=\S+ exit=(\d+)", body)
        if not mm:
            continue
        rc = int(mm.group(1))
        viol = re.findall(r"VIOLATION property=\S+ replay=\S+/(?:C\d+|ANY)-(\S+)\.json", body)
        inc = re.findall(r"INCONCLUSIVE property=\S+ harness=(\S+)", body)
        meta_p = root / name / "meta.json"
        if not meta_p.exists():
            continue
        meta = json.loads(meta_p.read_text())
        verdict = {0: "missed (check passed)", 1: "caught", 2: "inconclusive (exit 2: no verdict, no alarm)"}.get(rc, f"aborted (exit {rc})")
        prev = meta.get("detected_by") or {}
        # keep the strongest result over several runs
        rank = {"caught": 3, "inconclusive": 2, "missed": 1, "aborted": 0}
        def r(v): return rank.get(v.split(" ")[0], 0)
        if r(verdict) >= r(prev.get("verdict", "aborted")):
            meta["detected_by"] = {"verdict": verdict, "check": f"bin/check {prop} --tier {tier} (via bin/mutation_test.sh {name} {prop})",
                                   "harnesses": sorted(set(viol)), "inconclusive_harnesses": sorted(set(inc)), "note": prev.get("note", "")}
            meta_p.write_text(json.dumps(meta, indent=1) + "\n")
        print(name, prop, verdict, viol)
