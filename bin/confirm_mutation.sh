#!/usr/bin/env bash
# usage: confirm_mutation.sh <worktree> <k>   -- confirms a candidate seeded change delivered by a sub-agent:
#   existing suite passes with the change, the demo fails with it and passes without it.
# prints one line: CONFIRMED / REJECTED <reason>
set -u
W="$1"; K="$2"
export CARGO_NET_OFFLINE=true CARGO_TARGET_DIR="$W/target"
cd "$W" || exit 2
git checkout -q -- . ; git clean -fdq -e OUT -e target
git apply "OUT/mutation$K.diff" || { echo "REJECTED patch does not apply"; exit 1; }
suite=$(cargo test --offline 2>&1 | grep -E "^test result" | awk '{p+=$4; f+=$6} END {print p"/"f}')
cp "OUT/demo$K.rs" tests/zz_demo.rs
cargo test --offline --test zz_demo >/tmp/confirm_$$.log 2>&1; with=$?
git checkout -q -- src
cargo test --offline --test zz_demo >/tmp/confirm_$$b.log 2>&1; without=$?
rm -f tests/zz_demo.rs /tmp/confirm_$$.log /tmp/confirm_$$b.log
git checkout -q -- . ; git clean -fdq -e OUT -e target
if [ "$suite" = "33/0" ] && [ $with -ne 0 ] && [ $without -eq 0 ]; then echo "CONFIRMED suite=$suite demo_with=$with demo_without=$without"; else echo "REJECTED suite=$suite demo_with=$with demo_without=$without"; exit 1; fi
