#!/usr/bin/env bash
# development aid: splice every harness file and show compile errors (first of each kind)
cd "$(dirname "$0")/.."
export VERIF_SCRATCH=/var/tmp/hdw-cc
rm -rf /var/tmp/hdw-cc
VERIF_SPLICE_ALL=1 VERIF_TIMEOUT_SCALE=0.05 bin/check ANY --only c01_len_table --only c19_roundtrip_0 --keep >/dev/null 2>&1
for f in /var/tmp/hdw-cc/ANY-*/c01_len_table.log /var/tmp/hdw-cc/ANY-*/c19_roundtrip_0.log; do
  echo "== $f"; grep -E "^(error|warning: unused)" -A14 "$f" | head -${1:-120}
done
rm -rf /var/tmp/hdw-cc
