#!/usr/bin/env bash
# usage: mutation_test.sh <seeded dir name> <property id> [extra args for bin/check]
# Applies /verif/seeded/<name>/patch.diff to a scratch worktree of /repo's HEAD and runs the property's check
# against it (VERIF_REPO), with evidence/replays redirected to /var/tmp/hdw-mt-out/<name>. Prints the verdict.
set -u
name="$1"; prop="$2"; shift 2
W=/var/tmp/hdw-mt/$name
rm -rf "$W"; mkdir -p /var/tmp/hdw-mt
git -C /repo worktree add -q --detach "$W" HEAD || exit 2
git -C "$W" apply /verif/seeded/$name/patch.diff || { echo "patch does not apply"; git -C /repo worktree remove --force "$W"; exit 2; }
out=/var/tmp/hdw-mt-out/$name; mkdir -p "$out"
cd /verif
VERIF_REPO="$W" VERIF_OUT="$out" VERIF_SCRATCH=/var/tmp/hdw-mt-scratch-$$ bin/check "$prop" "$@" > "$out/$prop.log" 2>&1
rc=$?
git -C /repo worktree remove --force "$W"
echo "MUTATION $name property=$prop exit=$rc $(grep -c '^VIOLATION' "$out/$prop.log") violation line(s)"
grep -E "^VIOLATION|^INCONCLUSIVE|^KNOWN" "$out/$prop.log" | cut -c1-220 | head -8
exit $rc
