#!/usr/bin/env bash
# One-time, offline set-up of the verification framework (MANIFEST.setup_cmd).
#
#  1. /verif/.cache/ethnum-kani : copy of ethnum 1.5.0 from the cargo registry
#     with the one function that does not compile on Kani's nightly rewritten
#     (DESIGN.md 0.2).
#  2. /verif/.cache/kani-target-{lib,bin} : dependency-only Kani build caches.
#     hdwallet's own artifacts are removed afterwards so that nothing in the
#     cache depends on the content of /repo's sources.
#  3. /verif/.cache/replay-target : dependency cache for the native replayer.
set -euo pipefail
export CARGO_NET_OFFLINE=true
VERIF="$(cd "$(dirname "$0")/.." && pwd)"
CACHE="$VERIF/.cache"
REPO="${VERIF_REPO:-/repo}"
mkdir -p "$CACHE"

# ---------------------------------------------------------------- 1. ethnum
if [ ! -f "$CACHE/ethnum-kani/.patched" ]; then
    src="$(ls -d "$HOME"/.cargo/registry/src/*/ethnum-1.5.0 | head -1)"
    rm -rf "$CACHE/ethnum-kani"
    cp -a "$src" "$CACHE/ethnum-kani"
    python3 - "$CACHE/ethnum-kani/src/error.rs" <<'EOF'
import re, sys
p = sys.argv[1]
s = open(p).read()
old = "pub const fn tfie() -> TryFromIntError {\n    unsafe { mem::transmute(()) }\n}"
new = ("pub fn tfie() -> TryFromIntError {\n"
       "    match u8::try_from(-1i8) {\n"
       "        Err(e) => e,\n"
       "        Ok(_) => unreachable!(),\n"
       "    }\n"
       "}")
assert old in s, "ethnum error.rs has unexpected content"
open(p, "w").write(s.replace(old, new))
EOF
    touch "$CACHE/ethnum-kani/.patched"
fi

# ---------------------------------------------------------------- 1b. anyhow
# anyhow 1.0.97 built for Kani WITHOUT backtrace support (the configuration its build script picks on
# rustc < 1.65): errors carry no std::backtrace::Backtrace and do not use the nightly provider API.
# Backtraces are outside every claim; their drop glue (nested loops over frames and symbols behind a
# type-erased pointer) was the dominant cost of every query that can reach an error path
# (DESIGN.md 0.3). Ok/Err behaviour and error sources are unchanged.
if [ ! -f "$CACHE/anyhow-kani/.patched" ]; then
    src="$(ls -d "$HOME"/.cargo/registry/src/*/anyhow-1.0.97 | head -1)"
    rm -rf "$CACHE/anyhow-kani"
    cp -a "$src" "$CACHE/anyhow-kani"
    python3 - "$CACHE/anyhow-kani/build.rs" <<'PYEOF'
import sys
p = sys.argv[1]
s = open(p).read()
a = '    if cfg!(feature = "std") {\n        println!("cargo:rerun-if-changed=build/probe.rs");'
b = '    if !error_generic_member_access && cfg!(feature = "std") && rustc >= 65 {'
assert a in s and b in s, "anyhow build.rs has unexpected content"
s = s.replace(a, '    if false {\n        println!("cargo:rerun-if-changed=build/probe.rs");')
s = s.replace(b, '    if false && !error_generic_member_access {')
open(p, "w").write(s)
# errors are leaked instead of dropped: the type-erased drop goes through anyhow's hand-made vtable of
# plain function pointers, which CBMC can only resolve by signature (every compatible function is a
# candidate, including the recursive Error::source chain): measured, a *concrete* Path::from_str("m/")
# did not finish in 300 s with the real drop and takes seconds without it.
p = sys.argv[1].replace("build.rs", "src/error.rs")
s = open(p).read()
a = "            (vtable(self.inner.ptr).object_drop)(self.inner);"
assert a in s, "anyhow error.rs has unexpected content"
s = s.replace(a, "            if false { (vtable(self.inner.ptr).object_drop)(self.inner); }")
open(p, "w").write(s)
PYEOF
    touch "$CACHE/anyhow-kani/.patched"
fi

# ------------------------------------------------------- 2. Kani dep caches
warm() { # $1 = lib|bin
    local kind="$1" tgt="$CACHE/kani-target-$1" scratch
    if [ -f "$tgt/.warm" ]; then return 0; fi
    scratch="$(mktemp -d /var/tmp/hdw-verif-setup.XXXXXX)"
    rm -rf "$tgt"
    mkdir -p "$scratch/repo"
    rsync -a --exclude target --exclude .git "$REPO"/ "$scratch/repo"/
    cat >> "$scratch/repo/Cargo.toml" <<EOF

[patch.crates-io]
ethnum = { path = "$CACHE/ethnum-kani" }
anyhow = { path = "$CACHE/anyhow-kani" }
EOF
    if [ "$kind" = lib ]; then
        printf '\n#[cfg(kani)] #[kani::proof] fn __verif_warm() { assert!(1 + 1 == 2); }\n' >> "$scratch/repo/src/lib.rs"
        flag=--lib
    else
        printf '\n#[cfg(kani)] #[kani::proof] fn __verif_warm() { assert!(1 + 1 == 2); }\n' >> "$scratch/repo/src/main.rs"
        flag="--bin hdwallet"
    fi
    (cd "$scratch/repo" && cargo kani $flag -Z stubbing --target-dir "$tgt" --harness __verif_warm >"$scratch/log" 2>&1) \
        || { cat "$scratch/log"; rm -rf "$scratch"; echo "setup: warm-up build ($kind) failed" >&2; exit 1; }
    grep -q "VERIFICATION:- SUCCESSFUL" "$scratch/log" || { cat "$scratch/log"; rm -rf "$scratch"; exit 1; }
    # drop everything that was built from hdwallet's own sources
    find "$tgt" \( -name 'hdwallet*' -o -name 'libhdwallet*' \) -prune -exec rm -rf {} + 2>/dev/null || true
    touch "$tgt/.warm"
    rm -rf "$scratch"
}
warm lib & p1=$!
warm bin & p2=$!
wait $p1 || exit 1
wait $p2 || exit 1

# ---------------------------------------------- 3. native replayer dep cache
if [ ! -f "$CACHE/replay-target/.warm" ]; then
    scratch="$(mktemp -d /var/tmp/hdw-verif-setup.XXXXXX)"
    mkdir -p "$scratch/repo"
    rsync -a --exclude target --exclude .git "$REPO"/ "$scratch/repo"/
    (cd "$scratch/repo" && cargo build --offline --lib --bins --target-dir "$CACHE/replay-target" >"$scratch/log" 2>&1 \
        && cargo build --offline --release --lib --bins --target-dir "$CACHE/replay-target" >>"$scratch/log" 2>&1) \
        || { cat "$scratch/log"; rm -rf "$scratch"; echo "setup: native build failed" >&2; exit 1; }
    find "$CACHE/replay-target" \( -name 'hdwallet*' -o -name 'libhdwallet*' \) -prune -exec rm -rf {} + 2>/dev/null || true
    touch "$CACHE/replay-target/.warm"
    rm -rf "$scratch"
fi

echo "setup: ok ($(du -sh "$CACHE" | cut -f1) in $CACHE)"
