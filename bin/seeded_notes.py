#!/usr/bin/env python3
"""Adds explanatory notes to seeded/*/meta.json (why a change is outside the claimed bounds, cross-property detection)."""
import json
from pathlib import Path
NOTES = {
 "C14-2": "lives in Path::for_index (format! + Path::from_str), which is outside the claim (DESIGN 0.4 / C14)",
 "C14-3": "lives in Path::from_str's own split, which is outside the claim: even a concrete 2-byte input does not finish (DESIGN 0.4)",
 "C07-3": "only visible in signed EIP-2930 transactions; caught since the typed structure queries run with rlp::list as a recorder (c06l_eip2930_signed)",
 "C12-3": "worker-thread error handling in the CLI: process level, outside the claim",
 "C18-3": "lives in Path::for_index, outside the claim (see C14-2)",
 "C20-1": "MemberKind::from_str (type string grammar) is not decided: the recursive parser does not finish even for a concrete prefix + symbolic digits (DESIGN C08)",
 "C08-3": "MemberKind::from_str is not decided (see C20-1)",
 "C11-2": "the guard sits in cmd::sign::run; the harness c11_cli_guard (everything around the guard as recorders) would see it, but Kani 0.68 cannot compile that function (ICE on the niche-encoded Result<Transaction, _>)",
 "C11-3": "breaks the RLP leaf contract that C11's structure queries assume; it is caught by C07's check (c07_bytes_001, c07_bytes_symlen, c07_uint: same change as C07-1), not by C11's own",
 "C10-2": "needs a message of 10^6 bytes or more (outside the bound); the rewrite also bypasses Digest::of, the stubbed entry point, so the query ends inconclusive (real Keccak rounds)",
 "C06-3": "JSON key dispatch in Transaction::deserialize: the harness c06_kind_dispatch would see it, but Kani 0.68 cannot compile that function (ICE on the niche-encoded Result<Eip1559Transaction, _>)",
 "C03-3": "needs a path of 257+ components; depth is bounded by 2",
 "C17-2": "non-termination shows up as a failed unwinding assertion, which this framework reports as inconclusive (exit 2), not as a violation; the query that would reach it (encodeType over cyclic graphs) is a thorough-tier attempt",
 "C13-2": "byte-field strings are decided since the error-message rendering is cut (c13n_bytes_*), but this rewrite (trim_start_matches with a str pattern) makes those queries run past their time limit: inconclusive",
 "C13-3": "storage-key strings: as C13-2 (c13_slot_31 did not finish in 30 min)",
 "C13-1": "negative *float* spellings: symbolic f64 values through ethnum's range/fraction checks did not finish (floating-point conversions); integers and the sign guard on integer-typed numbers are decided",
 "C09-2": "same change as C13-1",
 "C02-1": "property C02 is withdrawn (DESIGN C02): Mnemonic::seed's format!/NFKD path does not terminate in CBMC",
 "C02-2": "property C02 is withdrawn; the same change is C01-1 (whitespace splitting), see there",
 "C02-3": "property C02 is withdrawn",
 "C19-3": "the change is in cmd::hex::run's stdout plumbing (write vs write_all), which is process-level and outside C19's claim",
 "C06-6": "needs the access-list structure queries (c06i_alist_*); the rewrite collects the keys into a BTreeSet, which makes the query much more expensive",
 "C08-4": "lives in Types::struct_hash (memberless struct): the struct_hash queries (c08_struct_hash_empty) do not finish under the caps, so it is not caught",
 "C08-5": "lives in Types::struct_hash (undeclared member whose value is null): the struct_hash queries (c08_struct_hash_m7) do not finish under the caps, so it is not caught",
}
root = Path("/verif/seeded")
for name, note in NOTES.items():
    p = root / name / "meta.json"
    if not p.exists():
        continue
    m = json.loads(p.read_text())
    d = m.get("detected_by") or {"verdict": "not run (outside the claim)", "harnesses": []}
    d["note"] = note
    m["detected_by"] = d
    p.write_text(json.dumps(m, indent=1) + "\n")
print("notes written")
