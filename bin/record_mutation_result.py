#!/usr/bin/env python3
"""usage: record_mutation_result.py <seeded name> <log of bin/mutation_test.sh> [note]
Writes the verdict of a mutation_test.sh run into seeded/<name>/meta.json (field detected_by)."""
import json, re, sys
from pathlib import Path
name, log = sys.argv[1], Path(sys.argv[2]).read_text(errors="replace")
note = sys.argv[3] if len(sys.argv) > 3 else ""
m = re.search(r"MUTATION (\S+) property=(\S+) exit=(\d+)", log)
if not m:
    sys.exit("no MUTATION line in the log")
rc = int(m.group(3))
viol = sorted(set(re.findall(r"VIOLATION property=\S+ replay=\S+/(?:C\d+|ANY)-(\S+)\.json", log)))
inc = sorted(set(re.findall(r"INCONCLUSIVE property=\S+ harness=(\S+)", log)))
verdict = {0: "missed (check passed)", 1: "caught", 2: "inconclusive (exit 2: no verdict, no alarm)"}.get(rc, f"aborted (exit {rc})")
p = Path("/verif/seeded") / name / "meta.json"
meta = json.loads(p.read_text())
meta["detected_by"] = {"verdict": verdict, "check": f"bin/mutation_test.sh {name} {m.group(2)} (the property's check run against a worktree with the patch)",
                       "harnesses": viol, "inconclusive_harnesses": inc, "note": note}
p.write_text(json.dumps(meta, indent=1) + "\n")
print(name, verdict, viol)
