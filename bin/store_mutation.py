#!/usr/bin/env python3
"""usage: store_mutation.py <prop id> <k> <confirm line> [<stored index>] : copies a confirmed sub-agent change into /verif/seeded/<id>-<k>/"""
import json, shutil, sys
from pathlib import Path
pid, k, confirm = sys.argv[1], sys.argv[2], sys.argv[3]
dk = sys.argv[4] if len(sys.argv) > 4 else k  # optional: index under which the change is stored
src = Path(f"/tmp/mut/{pid}/OUT")
dst = Path(f"/verif/seeded/{pid}-{dk}")
dst.mkdir(parents=True, exist_ok=True)
shutil.copy(src / f"mutation{k}.diff", dst / "patch.diff")
shutil.copy(src / f"demo{k}.rs", dst / "demo.rs")
notes = (src / f"notes{k}.md").read_text()
(dst / "notes.md").write_text(notes)
meta = {
    "property": pid,
    "origin": "independent sub-agent given only the property text and its own worktree of /repo at HEAD",
    "what": notes.strip().split("\n")[0][:300],
    "needs_to_manifest": "see notes.md",
    "confirmed_by_me": {
        "procedure": "bin/confirm_mutation.sh: apply patch in a scratch worktree; cargo test --offline (existing suite); demo as tests/zz_demo.rs "
                     "with the patch (must fail) and without it (must pass)",
        "result": confirm,
    },
    "detected_by": None,
}
(dst / "meta.json").write_text(json.dumps(meta, indent=1) + "\n")
print("stored", dst)
