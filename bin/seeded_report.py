#!/usr/bin/env python3
"""Writes seeded/README.md from the meta.json files."""
import json
from pathlib import Path
root = Path(__file__).resolve().parent.parent / "seeded"
rows = []
for d in sorted(root.iterdir()):
    m = d / "meta.json"
    if not m.exists():
        continue
    j = json.loads(m.read_text())
    det = j.get("detected_by") or {}
    rows.append((d.name, j.get("property"), j.get("what", "")[:160].replace("|", "/"), det.get("verdict", "not run yet"),
                 ", ".join(det.get("harnesses", []))[:160], det.get("note", "")))
out = ["# Seeded changes\n",
       "Each directory holds `patch.diff` (against /repo HEAD), the demonstration (`demo.rs`, a drop-in integration test that fails with "
       "the change and passes without it), `notes.md` from the author and `meta.json`. `C??-k` were written by independent sub-agents "
       "that saw only the property text; `orig-D*` are the reverse patches of the `fix:` commits (the original defects). All were "
       "confirmed with `bin/confirm_mutation.sh` before being kept. The verdict column is what `bin/mutation_test.sh <name> <property>` "
       "(the property's registered check run against a worktree with the patch applied) reported.\n",
       "| change | property | what | verdict | harnesses that reported it | note |", "|---|---|---|---|---|---|"]
for r in rows:
    out.append("| " + " | ".join(str(x) for x in r) + " |")
caught = sum(1 for r in rows if r[3].startswith("caught"))
out.append(f"\n{caught} of {len(rows)} caught by the registered checks (see notes for the ones that are outside the claimed bounds).\n")
(root / "README.md").write_text("\n".join(out))
print(f"{caught}/{len(rows)} caught")
