"""Registry of Kani harnesses: which module each harness file is spliced into, which properties a
harness decides, in which tier it runs, its caps, and the description that goes into the evidence.
"""

# harness file (under /verif/harness, without .rs) -> (crate, module source file, rust module path)
MODULES = {
    "rlp": ("lib", "src/transaction/rlp.rs", "transaction::rlp"),
    "path": ("lib", "src/hdk/path.rs", "hdk::path"),
    "mnemonic": ("lib", "src/mnemonic.rs", "mnemonic"),
    "message": ("lib", "src/message.rs", "message"),
    "account": ("lib", "src/account.rs", "account"),
    "transaction": ("lib", "src/transaction.rs", "transaction"),
    "typeddata": ("lib", "src/typeddata.rs", "typeddata"),
    "hdk": ("lib", "src/hdk.rs", "hdk"),
    "serialization": ("lib", "src/serialization.rs", "serialization"),
    "wordlist": ("lib", "src/mnemonic/wordlist.rs", "mnemonic::wordlist"),
    "signature": ("lib", "src/account/signature.rs", "account::signature"),
    "cmd_new": ("bin", "src/cmd/new.rs", "cmd::new"),
    "cmd": ("bin", "src/cmd.rs", "cmd"),
    "cmd_sign": ("bin", "src/cmd/sign.rs", "cmd::sign"),
}

# harness files that need another harness file spliced as well
FILE_DEPS = {"mnemonic": ["wordlist"], "hdk": ["path"]}

# ids of known findings that harnesses know how to exclude (compiled in as crate::__verif_kf::KF_<id>)
KNOWN_FINDING_IDS = ["D7"]

import prechecks

HARNESSES = []
PRECHECKS = {"C01": [prechecks.wordlist_contract], "C12": [prechecks.wordlist_contract]}
# properties whose claim was withdrawn because no query terminates under the caps: id -> reason (goes to not_applicable)
WITHDRAWN = {
    "C02": "withdrawn after measurement: Mnemonic::seed builds the salt with format!() and unicode-normalization's Display-based "
           "to_string(); both go through `dyn fmt::Write`, which CBMC resolves to every Write implementor in the program (including "
           "core's PadAdapter with its memchr splitting loops): the query with the EMPTY passphrase and a symbolic entropy buffer did "
           "not finish in 50 min, so no C02 query terminates; the password half of the claim (canonical phrase rendered from the stored "
           "entropy) is decided by C01's c01_to_phrase, the harnesses c02_* are kept in the registry (property tag X02) as documented attempts",
}
# the subset of C17-tagged harnesses that the quick tier of C17 runs (the thorough tier runs all of them)
C17_QUICK = set()

Q, T = "quick", "thorough"
FMT_STUBS = ["alloc::fmt::format -> empty String (error messages are outside the claim)",
             "std::backtrace::Backtrace::capture -> disabled",
             "core::slice::memchr::{memchr_aligned, memrchr} -> naive reference loops with the same contract (the library versions do "
             "pointer-alignment arithmetic on addresses CBMC treats as symbolic)"]


NOFMT = ["core::fmt::write -> writes nothing (the text of error messages is outside the claim; only Ok/Err is decided)"]


def H(name, file, props, tiers=(Q, T), timeout=600, **meta):
    meta.setdefault("stubs", [])
    meta["stubs"] = list(meta["stubs"]) + FMT_STUBS
    HARNESSES.append(dict(name=name, file=file, props=list(props), tiers=list(tiers), timeout=timeout, **meta))


# =========================================================================================== C07
H("c07_len", "rlp", ["C07", "C17"], timeout=300, mem_gb=6,
  functions=["transaction::rlp::len"],
  inputs="len: usize (all 2^64 values), offset in {0x80, 0xc0}",
  bound="none on the input",
  spec="strict header decoder returns (kind, len, header size); output length is minimal")
for L, tiers in [(0, (Q, T)), (1, (Q, T)), (2, (Q, T)), (3, (T,)), (20, (T,)), (32, (T,)), (33, (T,)), (54, (T,)),
                 (55, (Q, T)), (56, (Q, T)), (57, (Q, T)), (64, (T,)), (100, (T,)), (128, (Q, T)), (255, (T,)), (256, (T,)),
                 (257, (T,))]:
    H(f"c07_bytes_{L:03d}", "rlp", ["C07", "C17"], tiers=tiers, timeout=900, mem_gb=(6 if L < 200 else 20),
      functions=["transaction::rlp::bytes", "transaction::rlp::len"],
      inputs=f"content: [u8; {L}] (all values)", bound=f"length fixed to {L} in this query",
      spec="single byte < 0x80 is itself; otherwise strict string header(L) || content, nothing trailing")
H("c07_bytes_symlen", "rlp", ["C07", "C17"], timeout=1200, mem_gb=16,
  functions=["transaction::rlp::bytes", "transaction::rlp::len"],
  inputs="content: [u8; 60], length symbolic in 0..=60", bound="length <= 60",
  spec="as c07_bytes_L for every length at once (both sides of the 55/56 boundary)")
H("c07_uint", "rlp", ["C07", "C06", "C17"], timeout=900, mem_gb=6,
  functions=["transaction::rlp::uint", "transaction::rlp::bytes", "transaction::rlp::len",
             "ethnum::U256::{leading_zeros,to_be_bytes}"],
  inputs="value: U256 (all 2^256 values)", bound="none on the input",
  spec="big-endian without leading zero bytes, zero = 0x80, single byte < 0x80 is itself")
for nm, tiers in [("c07_list_0_0_0", (Q, T)), ("c07_list_1_0_2", (T,)), ("c07_list_20_20_15", (Q, T)),
                  ("c07_list_21_20_15", (Q, T)), ("c07_list_33_33_33", (T,)), ("c07_iter_1_33_21", (Q, T)),
                  ("c07_iter_0_0_0", (T,)), ("c07_list_empty", (Q, T)), ("c07_list_130_130_0", (T,)),
                  ("c07_iter_100_100_56", (Q, T))]:
    H(nm, "rlp", ["C07", "C17"], tiers=tiers, timeout=900, mem_gb={"c07_list_130_130_0": 28, "c07_iter_100_100_56": 9}.get(nm, 6),
      functions=["transaction::rlp::list", "transaction::rlp::iter", "transaction::rlp::len"],
      inputs="item contents symbolic, item lengths concrete (in the harness name)",
      bound="three items of the stated lengths: payload sums 0, 3, 55, 56, 99, 55, 260, 256",
      spec="strict list header(sum of item lengths) || concatenation of the items")


# =========================================================================================== C14
H("c14_component", "path", ["C14", "C17"], timeout=900,
  functions=["hdk::path::Component::from_str", "core::str::<impl>::{strip_suffix,parse::<u32>}"],
  inputs="every ASCII string of 0..=12 bytes", bound="length <= 12 bytes, ASCII only",
  spec="digits [']: Ok(index, hardened) iff value < 2^31, anything else Err; leading '+' / redundant leading "
       "zeros are don't-care but may never yield an index >= 2^31")
for n, tiers in [(0, (Q, T)), (1, (Q, T)), (2, (Q, T)), (3, (Q, T)), (4, (Q, T)), (5, (T,)), (6, (T,)), (7, (T,))]:
    H(f"c14_path_ascii_{n}", "path", ["C14", "C17"], tiers=tiers, timeout=1200,
      functions=["hdk::path::Path::from_str", "hdk::path::Component::from_str"],
      inputs=f"every ASCII string of exactly {n} bytes", bound=f"length {n}, ASCII only",
      spec="'m/' then '/'-separated components, none empty, each as in c14_component; components in order")
for k, tiers in [(1, (T,)), (2, (Q, T)), (3, (T,)), (5, (T,))]:
    H(f"c14_path_shape_{k}", "path", ["C14", "C17"], tiers=tiers, timeout=1800,
      functions=["hdk::path::Path::from_str", "hdk::path::Component::from_str"],
      inputs=f"text 'm' + {k} x ('/' + two symbolic ASCII bytes other than '/')", bound=f"depth {k}, two bytes per component",
      spec="as c14_path_ascii; exercises count and order of components at depth up to 5")
H("c14_default_path_text", "path", ["C14", "C17"], timeout=1200,
  functions=["hdk::path::Path::from_str", "hdk::path::Component::from_str"],
  inputs="text m/44'/60'/0'/0/<1..10 symbolic decimal digits>", bound="index < 10^10 (covers 2^31 and 2^32 boundaries)",
  spec="parses to [44',60',0',0,i] for i < 2^31, Err otherwise",
  assumes=["Path::for_index builds this text with format!(\"m/44'/60'/0'/0/{index}\"): the format string is checked by the "
           "source-level precheck, std's usize Display is trusted"])


# =========================================================================================== C15
K256 = ["k256/ecdsa: Signature::from_scalars, ScalarPrimitive range check (real code, compiled into the query)"]
H("c15_parse_130", "signature", ["C15", "C17"], timeout=1800, mem_gb=20,
  functions=["account::signature::Signature::from_str", "hex::decode_to_slice", "ecdsa::Signature::from_scalars",
             "Signature::{r,s,y_parity,v}"],
  inputs="every ASCII string of exactly 130 bytes", bound="length 130, ASCII only",
  spec="Ok iff 130 hex digits (either case), v in {1b,1c}, 0 < r,s < n; then r/s/parity equal the digits")
H("c15_parse_132", "signature", ["C15", "C17"], timeout=1800, mem_gb=20,
  functions=["account::signature::Signature::from_str", "hex::decode_to_slice", "ecdsa::Signature::from_scalars",
             "Signature::{r,s,y_parity,v}"],
  inputs="every ASCII string of exactly 132 bytes", bound="length 132, ASCII only",
  spec="Ok iff '0x' + 130 hex digits, v in {1b,1c}, 0 < r,s < n (the text Display prints parses back)")
H("c15_parse_other_lengths", "signature", ["C15", "C17"], timeout=1800, mem_gb=20,
  functions=["account::signature::Signature::from_str", "hex::decode_to_slice"],
  inputs="every ASCII string of length 0..=140 other than 130 and 132", bound="length <= 140",
  spec="always Err, never a panic")
H("c06_sig_accessors", "signature", ["C06", "C15", "C05"], timeout=900,
  functions=["Signature::{from_parts,r,s,y_parity}"],
  inputs="r, s: all scalars in (0, n); recovery id 0..=3", bound="none",
  spec="accessors return the scalars and the parity bit the signature holds")

# =========================================================================================== C11 (v)
H("c11_v", "signature", ["C11", "C06", "C17"], timeout=900,
  functions=["Signature::v", "Signature::y_parity", "ethnum::U256::{mul,add}"],
  inputs="chain id: Option<U256> (all 2^256 values), parity 0/1",
  bound="none; with known finding D7 listed, chain ids with 35+2c+parity >= 2^256 are excluded here and decided by the twin",
  spec="v = 35 + 2c + parity computed on big-endian bytes with carry; 27 + parity without chain id")
H("c11_v_kf_d7", "signature", ["C11", "C17"], timeout=900, twin_of="D7",
  functions=["Signature::v"], inputs="chain ids with 35+2c+parity >= 2^256", bound="none",
  spec="twin of known finding D7: expected to fail while the defect is present")

# =========================================================================================== C18
for n, tiers in [(5, (Q, T)), (7, (T,))]:
    H(f"c18_prefix_{n}", "cmd_new", ["C18", "C17"], tiers=tiers, timeout=1500,
      functions=["cmd::new::Prefix::from_str", "cmd::new::Prefix::matches"],
      inputs=f"every ASCII string of 0..={n} bytes as prefix text; every 20-byte address",
      bound=f"prefix text <= {n} bytes (<= {n-2} digits)",
      spec="Ok iff 0x + hex digits of either case; matches iff nibble k of the address = digit k for all k")
# does not compile: Kani 0.68 internal compiler error (intrinsics.rs: an intrinsic returning i32, reached through std::thread::spawn in the
# threaded branch of cmd::new::run) -- kept as documented attempts under the tag X18
for _nm, _props in [("c12_run_plain", ["X18"]), ("c18_run_vanity_index", ["X18"]), ("c18_run_vanity_hd_path", ["X18"])]:
  H(_nm, "cmd_new", _props, timeout=1800, mem_gb=14,
    auto_unwind={"memcmp": 40, "k256": 34, "ecdsa": 34, "elliptic": 34, "bigint": 34, "generic_array": 34, "from_be_slice": 34},
    functions=["cmd::new::run (single-threaded path: vanity_threads = 0)", "cmd::new::Prefix::matches", "<Mnemonic as Display>::fmt", "format!/println! (real)"],
    inputs="requested length and account index symbolic (all 2^64 values); address of the first candidate symbolic (all 2^160), the second "
           "candidate matches; entropy failure at request 1, 2, 3 or never and key-derivation failure at call 1, 2, 3 or never symbolic; "
           "configuration (prefix given or not, --vanity-hd-path given or not) concrete per query",
    bound="one-byte prefix 0xab, at most two candidates, vanity_threads = 0",
    stubs=["mnemonic::Mnemonic::random -> recorder: tagged mnemonics or an error (C12's library-level queries decide the real one)",
           "cmd::AccountOptions::private_key -> recorder: which mnemonic, password, account selector (C16)", "account::PrivateKey::address -> symbolic "
           "address (C04)", "mnemonic::Mnemonic::to_phrase -> the tag as text (C01)", "std::io::_print -> formats its arguments with the real "
           "format! and keeps the first byte"],
    spec="printed phrase = the candidate whose selected account's address matched (first iff it matches, else second), searched under the given "
         "vanity password / index / path; any entropy or derivation failure -> error and nothing printed; without a prefix exactly one "
         "mnemonic of the requested length is generated and printed")
H("c18_prefix_full_address", "cmd_new", ["C18", "C17"], tiers=(T,), timeout=1800,
  functions=["cmd::new::Prefix::from_str", "cmd::new::Prefix::matches"],
  inputs="40- and 41-digit prefixes spelling a symbolic address in symbolic case; a second symbolic address",
  bound="prefix of 40/41 digits", spec="matches exactly that address; 41 digits match nothing; no out-of-bounds read")

# =========================================================================================== C19
H("c19_permissive_hex_ascii6", "cmd", ["X19"], tiers=(T,), timeout=3000, mem_gb=30,
  functions=["cmd::permissive_hex", "hex::decode", "char::is_whitespace"],
  inputs="every ASCII string of 0..=6 bytes", bound="length <= 6, ASCII",
  spec="strip whitespace, optional 0x, even number of hex digits of either case -> bytes; else Err")
H("c19_permissive_hex_unicode_ws", "cmd", ["X19"], tiers=(T,), timeout=3000, mem_gb=30,
  functions=["cmd::permissive_hex", "hex::decode", "char::is_whitespace"],
  inputs="four ASCII bytes with U+2003 at a symbolic position", bound="7 bytes",
  spec="Unicode whitespace is ignored anywhere, including inside the 0x prefix")
for l, tiers in [(0, (T,)), (1, (T,)), (3, (T,))]:
    H(f"c19_roundtrip_{l}", "cmd", ["X19"], tiers=tiers, timeout=3000, mem_gb=30,
      functions=["hex::encode", "cmd::permissive_hex"],
      inputs=f"data: [u8; {l}] (all values)", bound=f"{l} bytes",
      spec="hex::encode gives two lower-case digits per byte; permissive_hex('0x' + that + newline) = data")


# =========================================================================================== C01 / C12
WL_STUBS = ["mnemonic::wordlist::Wordlist::search -> k-th of W symbolic indices (>= 2048 means 'not in the list')",
            "mnemonic::wordlist::Wordlist::word -> records the index, returns the token \"w\"",
            "mnemonic::wordlist::for_language -> empty list (the real 2048-word table is validated natively by the "
            "wordlist_contract precheck)",
            "mnemonic::hash_seed (SHA-256 of the entropy) -> uninterpreted: records its input, returns 32 symbolic bytes"]
WL_TRUST = ["SHA-256 (sha2 crate) computes the standard function", "the embedded word list is the canonical BIP-39 English "
            "list (checked natively on every run: sha256 of english.txt, 2048 sorted lines, all 2048 indices round trip "
            "through the public API)"]
H("c01_len_table", "mnemonic", ["C01", "C12", "C17"], timeout=300,
  functions=["mnemonic::mnemonic_to_byte_length"], inputs="word count: usize (all 2^64 values)", bound="none",
  spec="Ok iff count in {12,15,18,21,24}, value = 4*count/3")
for w, tiers in [(12, (Q, T)), (15, (Q, T)), (18, (T,)), (21, (T,)), (24, (Q, T))]:
    H(f"c01_unpack_{w}", "mnemonic", ["C01", "C17"], tiers=tiers, timeout=1500, files=["wordlist"],
      functions=["mnemonic::Mnemonic::from_phrase_str", "mnemonic::Language::split", "mnemonic::mnemonic_to_byte_length",
                 "mnemonic::Mnemonic::mnemonic_length"],
      inputs=f"{w} word indices, each in 0..=2048 (2048 = unknown word): all 2049^{w} sequences; checksum hash: all 2^256 values",
      bound=f"{w} words", stubs=WL_STUBS, trusted=WL_TRUST,
      spec="Ok iff all words known and top ENT/32 bits of the hash = trailing bits of the last index; then buf = big-endian "
           "concatenation of the 11-bit indices || hash, hash taken over exactly the entropy bytes, length = word count")
for n, tiers in [(0, (Q, T)), (1, (T,)), (2, (T,)), (3, (T,)), (6, (T,)), (9, (T,)), (10, (T,)), (11, (Q, T)), (13, (Q, T)),
                 (14, (Q, T)), (16, (T,)), (17, (Q, T)), (19, (T,)), (20, (T,)), (22, (T,)), (23, (Q, T)), (25, (Q, T)),
                 (26, (T,)), (27, (T,)), (30, (T,)), (33, (T,)), (36, (T,)), (40, (T,))]:
    H(f"c01_count_{n:02d}", "mnemonic", ["C01", "C17"], tiers=tiers, timeout=900, files=["wordlist"],
      functions=["mnemonic::Mnemonic::from_phrase_str", "mnemonic::Language::split", "mnemonic::mnemonic_to_byte_length"],
      inputs=f"phrase of {n} tokens, every look-up result symbolic", bound=f"{n} words", stubs=WL_STUBS, trusted=WL_TRUST,
      spec="always Err, never a panic or out-of-bounds write")
H("c01_to_phrase", "mnemonic", ["C01", "C17"], timeout=1500, files=["wordlist"],
  functions=["mnemonic::Mnemonic::to_phrase", "mnemonic::Mnemonic::mnemonic_length"],
  inputs="buf: [u8; 64] (all values), len in {16,20,24,28,32}", bound="none beyond the five lengths",
  stubs=WL_STUBS, trusted=WL_TRUST,
  spec="asks for exactly 3*len/4 words, k-th index = bits 11k..11k+10 of buf, words joined by single spaces, no trailing separator")
for w, tiers in [(12, (Q, T)), (24, (T,))]:
    H(f"c01_layout_{w}", "mnemonic", ["C01", "C17"], tiers=tiers, timeout=1500,
      functions=["mnemonic::Mnemonic::from_phrase_str", "mnemonic::Language::split (real split_whitespace)"],
      inputs=f"{w} word indices and the checksum hash symbolic; the phrase text has a fixed messy layout: leading/trailing "
             "whitespace and separators tab, LF, two spaces, CRLF, U+3000, space+U+00A0, U+2003+tab+space",
      bound=f"{w} words, one concrete layout", stubs=WL_STUBS, trusted=WL_TRUST,
      spec="same acceptance decision, entropy and reported length as for the single-space layout")
for n, tiers in [(3, (T,)), (5, (T,))]:
    H(f"c01_split_{n}", "mnemonic", ["C01", "C17"], tiers=tiers, timeout=3600,
      functions=["mnemonic::Language::split", "str::split_whitespace"],
      inputs=f"every ASCII string of exactly {n} bytes", bound=f"{n} bytes, ASCII",
      spec="tokens are exactly the maximal runs of non-whitespace bytes, in order")
ENT_STUB = ["rand::getentropy (extern \"C\") -> environment: records the requested length, returns an arbitrary status and, "
            "if non-negative, fills the buffer with arbitrary bytes"]
H("c12_random", "mnemonic", ["C12", "C17"], timeout=1500, files=["wordlist"],
  functions=["mnemonic::Mnemonic::random", "rand::get_entropy", "mnemonic::mnemonic_to_byte_length",
             "mnemonic::Mnemonic::mnemonic_length"],
  inputs="requested word count: usize (all values); getentropy status: i32; 32 entropy bytes", bound="none",
  stubs=WL_STUBS + ENT_STUB, trusted=WL_TRUST,
  spec="unsupported count -> Err without any entropy request; status < 0 -> Err; else exactly one request of 4L/3 bytes, "
       "buf = those bytes || hash over exactly them, reported length = L")
H("c12_get_entropy", "mnemonic", ["C12", "C17"], timeout=900, files=["wordlist"],
  functions=["rand::get_entropy"], inputs="slice length 0..=32, status, bytes", bound="<= 32 bytes",
  stubs=ENT_STUB, spec="one request for exactly the slice; Ok iff status >= 0; bytes stored unchanged")



# =========================================================================================== C10
KECCAK_STUB = ["ethdigest::Digest::of (Keccak-256) -> uninterpreted: records the bytes it is given, returns 32 symbolic bytes"]
KECCAK_TRUST = ["Keccak-256 (ethdigest) computes the standard function"]
for l, tiers in [(0, (Q, T)), (1, (T,)), (9, (Q, T)), (10, (Q, T)), (11, (T,)), (32, (T,)), (64, (T,)), (99, (T,)), (100, (T,)),
                 (101, (T,)), (127, (T,)), (128, (T,))]:
    H(f"c10_digest_{l:03d}", "message", ["C10", "C17"], tiers=tiers, timeout=2400, mem_gb=(44 if l > 64 else 30 if l > 32 else 16 if l > 16 else 9),
      functions=["message::EthereumMessage::signing_message", "message::digest", "io::Write::write_fmt / usize Display (real)"],
      inputs=f"message: [u8; {l}] (all values, arbitrary non-UTF-8 content)", bound=f"length {l}",
      stubs=KECCAK_STUB, trusted=KECCAK_TRUST,
      spec="exactly one Keccak invocation over 0x19 'Ethereum Signed Message:\\n' || decimal(len) || message; digest returned unchanged")
H("c10_digest_symlen", "message", ["C10", "C17"], timeout=2400, mem_gb=20,
  functions=["message::EthereumMessage::signing_message", "message::digest", "io::Write::write_fmt / usize Display (real)"],
  inputs="message: symbolic length 0..=24, all contents", bound="length <= 24", stubs=KECCAK_STUB, trusted=KECCAK_TRUST,
  spec="as c10_digest_L for every length 0..=24 in one query")


# =========================================================================================== C04
for l, tiers in [(0, (Q, T)), (1, (T,)), (16, (T,)), (23, (Q, T)), (24, (T,)), (31, (Q, T)), (32, (Q, T)), (33, (Q, T)),
                 (40, (T,)), (64, (T,))]:
    H(f"c04_new_{l:02d}", "account", ["C04", "C17"], tiers=tiers, timeout=900,
      functions=["account::PrivateKey::new", "account::PrivateKey::secret", "elliptic_curve::SecretKey::from_slice",
                 "ScalarPrimitive::from_slice (real range check)"],
      inputs=f"secret: [u8; {l}] (all values)", bound=f"length {l}",
      spec="32 bytes: Ok iff 0 < value < n; any other length: rejected or taken as the same big-endian integer; "
           "secret() returns that integer")
H("c04_address", "account", ["C04", "C17"], timeout=1500,
  functions=["account::PrivateKey::{new,public,address}", "account::public::PublicKey::encode_uncompressed",
             "elliptic_curve::PublicKey::from_secret_scalar", "to_encoded_point(false)"],
  inputs="secret: all scalars in [1, n-1]; Keccak output: all 2^256 values", bound="none",
  stubs=["k256::arithmetic::mul::mul (point multiplication) -> uninterpreted: records the scalar, returns G",
         "k256::ProjectivePoint::to_affine -> returns the affine generator"] + KECCAK_STUB,
  trusted=KECCAK_TRUST + ["secp256k1 scalar multiplication (k256) computes secret*G"],
  spec="the scalar multiplied is the secret; encoding is 04||X||Y; hashed bytes are exactly the 64 coordinate bytes; "
       "address = digest[12..32]",
  assumes=["EIP-55 display casing is ethaddr's Display (dependency) and not decided here"])


# =========================================================================================== C06
LEAF_STUBS = ["transaction::rlp::uint -> recorder: logs the U256 it is given, returns a one-byte placeholder (contract decided "
              "for all 2^256 values by c07_uint)",
              "transaction::rlp::bytes -> recorder: logs the byte string (contract decided by c07_bytes_*)",
              "transaction::accesslist::AccessList::rlp_encode -> recorder (contract decided by c06_alist_*)"] + KECCAK_STUB
C06_SPECS = {
    "legacy": ("LegacyTransaction::rlp_encode",
               "[nonce, gasPrice, gas, to, value, data] then (v, r, s) if signed (v = 35+2c+parity or 27+parity) else "
               "(chainId, 0, 0) if a chain id is present; absent recipient = empty string"),
    "eip2930": ("Eip2930Transaction::rlp_encode",
                "0x01 || [chainId, nonce, gasPrice, gas, to, value, data, accessList] + (yParity, r, s) if signed"),
    "eip1559": ("Eip1559Transaction::rlp_encode",
                "0x02 || [chainId, nonce, maxPriorityFeePerGas, maxFeePerGas, gas, to, value, data, accessList] + "
                "(yParity, r, s) if signed"),
}
for nm, kind, tiers in [("c06_legacy_unsigned_nochain", "legacy", (T,)), ("c06_legacy_unsigned_chain", "legacy", (Q, T)),
                        ("c06_legacy_signed_nochain", "legacy", (T,)), ("c06_legacy_signed_chain", "legacy", (Q, T)),
                        ("c06_eip2930_unsigned", "eip2930", (T,)), ("c06_eip2930_signed", "eip2930", (Q, T)),
                        ("c06_eip1559_unsigned", "eip1559", (Q, T)), ("c06_eip1559_signed", "eip1559", (Q, T))]:
    H(nm, "transaction", ["C06", "C11", "C17"], tiers=tiers, timeout=2400, mem_gb=(40 if nm in ("c06_eip2930_signed", "c06_eip1559_signed", "c06_eip1559_unsigned") else 24 if nm == "c06_eip2930_unsigned" else 14),
      functions=["transaction::" + C06_SPECS[kind][0], "transaction::rlp::{iter,list,len} (real)",
                 "account::Signature::{v,r,s,y_parity} (real)"],
      inputs="every U256 field: all 2^256 values; recipient present/absent with 20 symbolic bytes; 3 symbolic data bytes; "
             "parity symbolic (r, s fixed distinct scalars); signed/unsigned and chain id presence fixed per query (in the name)",
      bound="calldata 3 bytes, access list 0/1 entries (both abstracted by the recorder); legacy chain ids < 2^255-18 (D7)",
      stubs=LEAF_STUBS, trusted=KECCAK_TRUST, spec=C06_SPECS[kind][1])
for nm, tiers in [("c06_signing_message_legacy_nochain", (T,)), ("c06_signing_message_legacy_chain", (Q, T)),
                  ("c06_signing_message_eip2930", (T,)), ("c06_signing_message_eip1559", (Q, T))]:
    H(nm, "transaction", ["C06", "C11", "C17"], tiers=tiers, timeout=2400, mem_gb=28,
      functions=["transaction::Transaction::signing_message", "transaction::Transaction::rlp_encode (dispatch)"],
      inputs="all field values symbolic; transaction kind fixed per query", bound="as the structure harnesses",
      stubs=LEAF_STUBS, trusted=KECCAK_TRUST,
      spec="exactly one Keccak invocation over exactly the unsigned encoding of the same variant; digest returned unchanged")
for nm, tiers in [("c06_alist_empty", (Q, T))]:
    H(nm, "transaction", ["C06", "C07", "C17"], tiers=tiers, timeout=2400, mem_gb=(6 if nm.endswith("empty") else 40),
      functions=["transaction::accesslist::AccessList::rlp_encode", "StorageSlot::rlp_encode",
                 "transaction::rlp::{bytes,list,iter,len} (real)"],
      inputs="addresses and storage slots symbolic; shape (entries, slots per entry) fixed per query",
      bound="empty list only: one entry with zero slots exceeded 39 GB (memcpy of symbolic length per nested Vec item); "
            "populated access lists are outside the claim",
      spec="byte-exact canonical RLP of [[address, [slot, ...]], ...] built independently by the harness")


# =========================================================================================== C20 / C08 / C09
TD_STUB = ["typeddata::Types::type_definition (HashMap look-up) -> look-up by name in a harness-owned table, same contract",
           "std::hash::RandomState::new -> fixed keys (the real map stays empty)"]
for n, tiers in [(0, (Q, T)), (1, (Q, T)), (2, (Q, T)), (3, (Q, T)), (4, (T,)), (5, (T,)), (6, (T,))]:
    H(f"c20_domain_{n}", "typeddata", ["C20", "C17"], tiers=tiers, timeout=1800, mem_gb=14, cbmc_args="--unwindset memcmp.0:40",
      functions=["typeddata::TypedDataBlob::verify_domain_type", "MemberKind::eq"],
      inputs=f"{n} declared members; each name a symbolic choice of the 5 standard names or a foreign one, each type a symbolic "
             f"choice of 8 kinds: all {6**n * 8**n} declarations", bound=f"{n} members",
      stubs=TD_STUB, spec="Ok iff non-empty, names strictly increasing in the standard order, every type the standard one")
H("c20_domain_missing", "typeddata", ["C20", "C09", "C17"], timeout=900, cbmc_args="--unwindset memcmp.0:40",
  functions=["typeddata::TypedDataBlob::verify_domain_type"], inputs="type table without EIP712Domain", bound="-",
  stubs=TD_STUB, spec="Err")
for nm, tiers in [("c08_encode_type_small", (Q, T)), ("c08_encode_type_arrays_mutual", (Q, T)), ("c08_encode_type_arrays_self", (Q, T)),
                  ("c08_encode_type_a", (T,)), ("c08_encode_type_b", (T,)), ("c08_encode_type_p", (Q, T))]:
    H(nm, "typeddata", ["C08", "C17"], tiers=tiers, timeout=3000, mem_gb=20,
      auto_unwind={"memcmp": 40, "fmt": 14, "btree": 14, "bytes_eq_sym": 8, "push_def": 8, "check_encode_type": 8, "alloc": 14, "str": 14},
      functions=["typeddata::Types::encode_type", "TypeDefinition::struct_references", "MemberKind::struct_reference",
                 "Display for TypeDefinition / Member / MemberKind", "BTreeMap insert/contains_key/values (real)"],
      inputs="struct types A, B, P with two members each, every member a symbolic choice of {bool, A, B, P} "
             "(small: 4 symbolic members, primary P)",
      bound="3 struct types, 2 members each: all 4^6 reference graphs per primary type (small: 4^4); references through arrays "
            "only for the two concrete graphs of c08_encode_type_arrays",
      stubs=TD_STUB,
      spec="encodeType = primary definition followed by every transitively referenced struct type exactly once in name order, "
           "the primary never repeated")
H("c09_undefined_reference", "typeddata", ["C09", "C17"], timeout=900,
  functions=["typeddata::Types::encode_type"], inputs="P references undefined Q", bound="-", stubs=TD_STUB, spec="Err")
H("c08_final_digest", "typeddata", ["C08", "C17"], timeout=1500,
  functions=["typeddata::TypedDataBlob::compute"],
  inputs="domain separator and message hash: all 2^256 values each; either struct hash may fail", bound="-",
  stubs=TD_STUB + KECCAK_STUB + ["typeddata::Types::struct_hash -> uninterpreted: returns a symbolic digest or an error, records "
                                 "the type name it was asked for"],
  trusted=KECCAK_TRUST,
  spec="one Keccak invocation over 0x19 0x01 || domainSeparator || hashStruct(message); accessors return the three digests; "
       "domain hashed as EIP712Domain, message as the primary type; errors propagate")
PARSER_STUB = ["ethnum::serde::permissive::deserialize -> returns an arbitrary 256-bit value (the spelling -> value map is C13)"]
H("c09_uint_range", "typeddata", ["C09", "C08", "C17"], timeout=1500,
  functions=["typeddata::Types::encode_value (Uint arm)", "serialization::num::deserialize"],
  inputs="value: all 2^256; width N = 8k for k in 1..=32", bound="none", stubs=TD_STUB + PARSER_STUB,
  spec="Ok iff value < 2^N; word = 32-byte big-endian value")
H("c09_int_range", "typeddata", ["C09", "C08", "C17"], timeout=1500,
  functions=["typeddata::Types::encode_value (Int arm)"],
  inputs="value: all 2^256 two's complement values; width N = 8k for k in 1..=32", bound="none", stubs=TD_STUB + PARSER_STUB,
  spec="Ok iff -2^(N-1) <= value < 2^(N-1); word = sign-extended two's complement")
H("c08_atom_bool", "typeddata", ["C08", "C09", "C17"], timeout=1500, cbmc_args="--unwindset memcmp.0:40",
  functions=["typeddata::Types::encode_value (Bool arm)", "bool::deserialize(serde_json::Value)"],
  inputs="JSON true/false/null/string/number", bound="-", stubs=TD_STUB, spec="true -> 1, false -> 0, other JSON kinds Err")
BYTES_LEAF = ["serialization::bytes::deserialize -> returns the harness' byte string or an error (decided on its own by c13_bytes_N)"]
for nm, tiers in [("c09_bytes1_len0", (Q, T)), ("c09_bytes1_len1", (Q, T)), ("c09_bytes1_len2", (Q, T)), ("c09_bytes4_len3", (Q, T)),
                  ("c09_bytes4_len4", (T,)), ("c09_bytes4_len5", (T,)), ("c09_bytes31_len31", (T,)), ("c09_bytes31_len32", (Q, T)),
                  ("c09_bytes32_len31", (Q, T)), ("c09_bytes32_len32", (Q, T)), ("c09_bytes32_len33", (Q, T))]:
    H(nm, "typeddata", ["C09", "C08", "C17"], tiers=tiers, timeout=1800, mem_gb=9,
      functions=["typeddata::Types::encode_value (Bytes(Some(n)) arm)"],
      inputs="byte string content symbolic, lengths (N, L) in the harness name; leaf parser may also refuse",
      bound="N in {1,4,31,32}, L in {N-1,N,N+1}", stubs=TD_STUB + BYTES_LEAF,
      spec="Ok iff the leaf accepted and L = N; word = bytes left-aligned, zero padded")
H("c08_atom_bytes_dynamic", "typeddata", ["C08", "C17"], timeout=1800, mem_gb=9,
  functions=["typeddata::Types::encode_value (Bytes(None) arm)"], inputs="37 symbolic bytes", bound="37 bytes",
  stubs=TD_STUB + BYTES_LEAF + KECCAK_STUB, trusted=KECCAK_TRUST, spec="word = Keccak-256 of exactly the raw bytes")
H("c08_atom_address", "typeddata", ["C08", "C17"], timeout=1800, mem_gb=14,
  functions=["typeddata::Types::encode_value (Address arm)", "ethaddr Address::deserialize"],
  inputs="address: 20 symbolic bytes rendered as lower-case 0x-hex", bound="-", stubs=TD_STUB, spec="word = 12 zero bytes || address")
H("c08_atom_string", "typeddata", ["C08", "C17"], timeout=1800, mem_gb=14,
  functions=["typeddata::Types::encode_value (String arm)", "Cow<str>::deserialize(serde_json::Value)"],
  inputs="5 symbolic ASCII characters", bound="5 bytes",
  stubs=TD_STUB + KECCAK_STUB, trusted=KECCAK_TRUST, spec="word = Keccak-256 of the UTF-8 text")
for nm, tiers in [("c09_array_fixed2_len1", (Q, T)), ("c09_array_fixed2_len2", (T,)), ("c09_array_fixed2_len3", (T,)),
                  ("c08_array_dyn_len0", (T,)), ("c08_array_dyn_len2", (Q, T))]:
    H(nm, "typeddata", ["C09", "C08", "C17"], tiers=tiers, timeout=1800, mem_gb=14, cbmc_args="--unwindset memcmp.0:40",
      functions=["typeddata::Types::encode_value (Array arm, Bool elements)"],
      inputs="bool[2] / bool[] with 0..3 symbolic elements", bound="<= 3 elements",
      stubs=TD_STUB + KECCAK_STUB, trusted=KECCAK_TRUST,
      spec="fixed array: Ok iff element count = size; word = Keccak-256 of the concatenated element words")
for n, tiers in [(3, (T,)), (4, (Q, T)), (5, (T,)), (6, (Q, T)), (7, (T,)), (8, (T,)), (9, (T,)), (10, (T,))]:
    H(f"c08_kind_ascii_{n}", "typeddata", ["C08", "C17"], tiers=tiers, timeout=2400, mem_gb=14,
      functions=["typeddata::MemberKind::from_str"],
      inputs=f"every ASCII string of exactly {n} bytes", bound=f"{n} bytes, ASCII",
      spec="EIP-712 member type grammar: atoms, bytes1..32, (u)intN with N%8=0 in 8..=256, [] and [n] suffixes, else struct name "
           "('+' signs and redundant leading zeros in numbers are don't-care)")
H("c17_kind_64_suffixes", "typeddata", ["C17"], tiers=(T,), timeout=2400, mem_gb=14,
  functions=["typeddata::MemberKind::from_str"], inputs="'T' followed by 64 '[]' suffixes (concrete)", bound="64 suffixes",
  spec="terminates with 64 nested dynamic array dimensions around struct T")


# =========================================================================================== C13
NUMFN = ["serialization::num::deserialize", "ethnum::serde::permissive::deserialize (real)", "serde_json::Value as Deserializer"]
H("c13_number_u64", "serialization", ["C13", "C09", "C17"], timeout=1800, functions=NUMFN, cbmc_args="--unwindset memcmp.0:40",
  inputs="JSON number from any u64", bound="none", spec="Ok(exactly that integer)")
H("c13_number_i64", "serialization", ["C13", "C09", "C17"], timeout=1800, functions=NUMFN, cbmc_args="--unwindset memcmp.0:40",
  inputs="JSON number from any i64", bound="none", spec="v >= 0: Ok(v); v < 0: Err (never 2^256 - |v|)")
H("c13_number_f64", "serialization", ["C13", "C09", "C17"], timeout=1800, functions=NUMFN, cbmc_args="--unwindset memcmp.0:40",
  inputs="JSON number from any finite f64", bound="none",
  spec="integral in [0, 2^53): Ok(exact value); negative, fractional or >= 2^53: never accepted with another value")
H("c13_numopt", "serialization", ["C13", "C11", "C17"], timeout=1800, cbmc_args="--unwindset memcmp.0:40",
  functions=["serialization::numopt::deserialize"], inputs="null / any i64 number / bool", bound="-",
  spec="null -> None; number as c13_number_i64; other kinds Err")
for n, tiers in [(0, (Q, T)), (1, (Q, T)), (2, (Q, T)), (3, (Q, T)), (4, (T,)), (5, (T,)), (6, (T,))]:
    H(f"c13_numstr_{n}", "serialization", ["C13", "C09", "C17"], tiers=tiers, timeout=1800, mem_gb=14, functions=NUMFN, cbmc_args="--unwindset memcmp.0:40",
      inputs=f"every ASCII string of exactly {n} bytes", bound=f"{n} bytes, ASCII",
      spec="decimal digits or 0x + hex digits: Ok(exact value); empty, '-', fraction, exponent, bad digit, bare 0x: Err; "
           "leading '+' is don't-care")
for d, tiers in [(64, (T,)), (65, (T,))]:
    H(f"c13_hex_boundary_{d}", "serialization", ["C13", "C17"], tiers=tiers, timeout=2400, mem_gb=20, functions=NUMFN,
      inputs=f"0x + {d} symbolic hex digits (either case)", bound=f"{d} digits",
      spec="64 digits: Ok(exact value); 65 digits: Ok iff the first digit is 0 (value < 2^256), else Err")
for n, tiers in [(0, (Q, T)), (1, (T,)), (2, (Q, T)), (3, (Q, T)), (4, (Q, T)), (5, (T,)), (6, (T,)), (8, (T,))]:
    H(f"c13_bytes_{n}", "serialization", ["C13", "C17"], tiers=tiers, timeout=1800, mem_gb=14, cbmc_args="--unwindset memcmp.0:40",
      functions=["serialization::bytes::deserialize", "hex::decode"],
      inputs=f"every ASCII string of exactly {n} bytes", bound=f"{n} bytes, ASCII",
      spec="Ok iff 0x + even number of hex digits (either case); value = those bytes")
H("c13_bytes_wrong_kind", "serialization", ["C13", "C17"], timeout=1800, cbmc_args="--unwindset memcmp.0:40",
  functions=["serialization::bytes::deserialize"], inputs="null / number / bool", bound="-", spec="Err")
for nm, tiers in [("c13_slot_31", (Q, T)), ("c13_slot_32", (Q, T)), ("c13_slot_33", (T,)), ("c13_slot_0", (T,))]:
    H(nm, "serialization", ["C13", "C17"], tiers=tiers, timeout=1800, mem_gb=14, cbmc_args="--unwindset memcmp.0:40",
      functions=["serialization::bytearray::deserialize::<_, 32>", "hex::decode_to_slice"],
      inputs="0x + hex of L symbolic bytes in lower or upper case", bound="L in {0,31,32,33}",
      spec="storage key: Ok iff exactly 32 bytes; value unchanged")
for l, tiers in [(19, (T,)), (20, (Q, T)), (21, (T,))]:
    H(f"c13_address_{l}", "serialization", ["C13", "C17"], tiers=tiers, timeout=1800, mem_gb=14, cbmc_args="--unwindset memcmp.0:40",
      functions=["<Option<ethaddr::Address> as Deserialize>::deserialize(serde_json::Value)"],
      inputs=f"hex of {l} symbolic bytes with and without 0x", bound=f"{l} bytes",
      spec="recipient: Ok iff 0x + exactly 20 bytes; value unchanged")


# =========================================================================================== C03
HDK_STUBS = ["sha2::sha512::compress512 -> uninterpreted: logs every 128-byte block, returns a fresh symbolic chaining state "
             "(HMAC-SHA512 becomes an uninterpreted function of key and message, read off the ipad and message blocks)",
             "k256::arithmetic::mul::mul -> uninterpreted: records the scalar, returns G",
             "k256::ProjectivePoint::to_affine -> returns the affine generator"]
HDK_TRUST = ["HMAC-SHA512 (hmac, sha2) and secp256k1 point multiplication (k256) compute the standard functions; "
             "hmac/sha2 chain the compression states as specified"]
for nm, tiers, to in [("c03_master_s16", (T,), 3000), ("c03_master_s32", (T,), 3000), ("c03_master_s64", (Q, T), 3000),
                      ("c03_master_s65", (Q, T), 3000), ("c03_master_s96", (T,), 3000),
                      ("c03_d1_hardened_s64", (Q, T), 5400), ("c03_d1_normal_s64", (Q, T), 5400),
                      ("c03_d1_any_s16", (T,), 5400), ("c03_d2_any_s64", (T,), 9000)]:
    H(nm, "hdk", ["C03", "C17"], tiers=tiers, timeout=to, mem_gb=24, files=["path"],
      functions=["hdk::derive", "hdk::derive_slice", "Hmac<Sha512>::{new_from_slice,update,finalize} (real, above the compression "
                 "function)", "SecretKey::from_slice (real range checks)", "ScalarPrimitive add mod n (real)", "PrivateKey::new"],
      inputs="seed bytes symbolic (length in the name: s16/s32/s64); per component index < 2^31 and hardened/normal symbolic "
             "(d0 = master key only, d1/d2 = depth); every HMAC output symbolic",
      bound="seed length and depth as in the name", stubs=HDK_STUBS, trusted=HDK_TRUST,
      spec="BIP-32: master = HMAC('Bitcoin seed', seed); per component data = 00||k||ser32(i+2^31) or serP(point(k))||ser32(i); "
           "child = (IL + k) mod n, chain = IR; Err iff a parent key or IL is 0 or >= n or the child is 0 (IL = 0 is don't-care)")


# =========================================================================================== C02
for pn, tiers in [(0, (Q, T)), (1, (Q, T)), (2, (T,)), (3, (T,))]:
    H(f"c02_seed_p{pn}", "mnemonic", ["X02"], tiers=tiers, timeout=3000, mem_gb=20, files=["wordlist"],
      functions=["mnemonic::Mnemonic::seed", "mnemonic::Mnemonic::to_phrase", "format!(\"mnemonic{}\") (real)",
                 "unicode_normalization nfkd() (real decomposition tables and canonical ordering)"],
      inputs=f"entropy buffer: all values, 5 lengths; passphrase: {pn} characters, each a symbolic choice of a 10-character palette "
             "(ASCII, precomposed accent, full-width, ligature, enclosed digit, astral plane, two combining marks of different "
             "classes, compatibility letter + mark, Hangul syllable)",
      bound=f"passphrase of {pn} palette characters",
      stubs=["pbkdf2::pbkdf2 -> uninterpreted: records password, salt, rounds, output length and PRF type, fills the output with "
             "symbolic bytes", WL_STUBS[1], WL_STUBS[2]],
      trusted=["PBKDF2-HMAC-SHA512 (pbkdf2, hmac, sha2) computes the standard function",
               "NFKD expectations come from the Unicode Character Database via Python's unicodedata (hard-coded in the harness)"],
      spec="one PBKDF2 call: password = canonical phrase rendered from the stored entropy, salt = 'mnemonic' || UTF-8(NFKD(passphrase)), "
           "2048 rounds, HMAC-SHA512, 64 bytes returned unchanged")

HEX_STUB = ["hex::decode (dependency) -> records the text it is handed, returns an arbitrary verdict/bytes (trusted; its own "
            "behaviour is only decided in the thorough-tier c19_permissive_hex_* / c19_roundtrip_* queries)"]
for n, tiers in [(0, (Q, T)), (2, (Q, T)), (3, (Q, T)), (4, (Q, T)), (5, (T,)), (6, (T,)), (8, (T,))]:
    H(f"c19_filter_ascii_{n}", "cmd", ["X19"], tiers=tiers, timeout=1800, mem_gb=14,
      functions=["cmd::permissive_hex (whitespace filter, optional 0x prefix, result pass-through)"],
      inputs=f"every ASCII string of exactly {n} bytes; decoder verdict symbolic", bound=f"{n} bytes, ASCII",
      stubs=HEX_STUB, trusted=["hex 0.4 decodes an even number of hex digits of either case and rejects anything else"],
      spec="exactly one decode, of the input with all whitespace removed and one optional leading 0x stripped; Ok bytes and "
           "errors are passed through unchanged")
H("c19_filter_unicode_ws", "cmd", ["X19"], timeout=1800, mem_gb=14,
  functions=["cmd::permissive_hex"], inputs="four ASCII bytes with U+2003 at a symbolic position", bound="7 bytes",
  stubs=HEX_STUB, spec="Unicode whitespace is removed anywhere, including inside the prefix")

CAP_STUBS = ["alloc::string::String::{new, push, push_str} -> fixed pre-allocation of 64 bytes and in-place append (String's growth "
             "policy is std's and trusted; exceeding the capacity is an assertion failure, never a truncation; contents and lengths "
             "are unchanged)"]
C19_OUT = ["stdin/stdout plumbing of cmd::hex::run (read_input, str::from_utf8, println!, write_all) is process-level and outside"]
for n in (3, 4, 6, 8, 12, 16):
    H(f"c19_filtercap_ascii_{n}", "cmd", ["C19", "C17"], timeout=900, mem_gb=6,
      functions=["cmd::permissive_hex (whitespace filter closure, optional 0x prefix, result pass-through, into_boxed_slice)",
                 "char::is_whitespace", "str::chars", "str::strip_prefix"],
      inputs=f"every ASCII string of exactly {n} bytes; decoder verdict and decoded bytes symbolic", bound=f"{n} bytes, ASCII",
      stubs=HEX_STUB + CAP_STUBS, trusted=["hex 0.4 decodes an even number of hex digits of either case and rejects anything else "
                                           "(decided for short inputs in c19_hexcap_*)"], assumes=C19_OUT,
      spec="exactly one decode, of the input with all whitespace removed and one optional leading 0x stripped; Ok bytes and "
           "errors are passed through unchanged")
H("c19_filtercap_unicode", "cmd", ["C19", "C17"], timeout=900, mem_gb=6,
  functions=["cmd::permissive_hex", "char::is_whitespace (Unicode White_Space table)"],
  inputs="nine symbolic ASCII bytes with one non-ASCII character (U+0085, U+00A0, U+2003, U+3000 = white space; U+00E9, U+200B = "
         "not white space; symbolic choice) at a symbolic position; decoder verdict symbolic", bound="12 bytes",
  stubs=HEX_STUB + CAP_STUBS, assumes=C19_OUT,
  spec="Unicode white space is removed anywhere (also inside the prefix); other non-ASCII characters are handed to the decoder")
H("c19_hexcap_ascii4", "cmd", ["C19", "C17"], timeout=1200, mem_gb=9,
  functions=["cmd::permissive_hex", "hex::decode (real)", "char::is_whitespace"],
  inputs="every ASCII string of 0..=4 bytes", bound="length <= 4, ASCII", stubs=CAP_STUBS, assumes=C19_OUT,
  spec="strip whitespace, optional 0x, even number of hex digits of either case -> bytes; else Err")
H("c19_hexcap_ascii6", "cmd", ["C19", "C17"], timeout=2400, mem_gb=12,
  functions=["cmd::permissive_hex", "hex::decode (real)", "char::is_whitespace"],
  inputs="every ASCII string of 0..=6 bytes", bound="length <= 6, ASCII", stubs=CAP_STUBS, assumes=C19_OUT,
  spec="strip whitespace, optional 0x, even number of hex digits of either case -> bytes; else Err")
H("c19_hexcap_unicode", "cmd", ["C19", "C17"], timeout=2400, mem_gb=12,
  functions=["cmd::permissive_hex", "hex::decode (real)", "char::is_whitespace (Unicode White_Space table)"],
  inputs="five symbolic ASCII bytes with one non-ASCII character (four white-space, two non-white-space; symbolic choice) at a "
         "symbolic position", bound="8 bytes", stubs=CAP_STUBS, assumes=C19_OUT,
  spec="as c19_hexcap_ascii; Unicode white space ignored anywhere, any other non-ASCII character refused")
for l in (0, 1, 2, 3, 4, 8):
    H(f"c19_respell_{l}", "cmd", ["C19", "C17"], timeout=2400, mem_gb=14,
      functions=["hex::encode (real)", "cmd::permissive_hex", "hex::decode (real)"],
      inputs=f"data: [u8; {l}] (all values); per-digit case flags, prefix present/absent, one ASCII white-space character at a "
             "symbolic position (or none), trailing newline", bound=f"{l} bytes of data",
      stubs=CAP_STUBS, assumes=C19_OUT,
      spec="hex::encode gives two lower-case digits per byte; every respelling of '0x' + that + newline (case, prefix, inserted "
           "white space) decodes to exactly the original bytes")

for _nm in ["c16_account_default", "c16_account_hd_path", "c16_account_bad_path"]:
  H(_nm, "cmd", ["C16", "C17"], timeout=1800, mem_gb=12,
    auto_unwind={"memcmp": 40, "k256": 34, "ecdsa": 34, "elliptic": 34, "bigint": 34, "generic_array": 34, "from_be_slice": 34,
                 "TwoWaySearcher": 12, "maximal_suffix": 12},
  functions=["cmd::AccountOptions::private_key", "<hdk::Path as FromStr>::from_str (real, on the two concrete --hd-path texts)", "hdk::derive"],
  inputs="password: every ASCII string of 0..=3 bytes; account index: all 2^64 values; --hd-path absent / 'm/9' / '9' (malformed) -- one query "
         "each; verdicts of for_index and of the derivation symbolic",
  bound="password <= 3 bytes; two concrete --hd-path texts",
  stubs=["mnemonic::Mnemonic::seed -> recorder (which mnemonic, which password; fixed seed) -- C02", "hdk::Path::for_index -> recorder (which "
         "index; returns the path [77'] or an error) -- C14", "hdk::derive_slice -> recorder (which seed, which path; fixed key or an error) -- C03"]
        + NOFMT,
  spec="seed = seed(this mnemonic, this password); path = for_index(account_index) without --hd-path, the parsed --hd-path otherwise (whatever "
       "the account index is); a path error is returned and nothing is derived; the result of derive(seed, path) is returned unchanged")

# =========================================================================================== C06 with rlp::list as a recorder
LIST_STUB = ["transaction::rlp::{uint, bytes} and AccessList::rlp_encode -> recorders (log kind, value, length; return a distinct one-byte "
             "placeholder)",
             "transaction::rlp::list -> recorder (logs first byte and length of every item, returns the placeholder 0xEE); its contract "
             "(header(total) || items in order) is decided in c07_list_* / c07_iter_*"]
K256_UNWIND = {"memcmp": 40, "k256": 34, "ecdsa": 34, "elliptic": 34, "bigint": 34, "generic_array": 34, "from_parts": 34,
               "Signature": 34, "signature": 34, "U256": 34, "uint": 34}
for nm, what in [("c06l_eip2930_unsigned", "EIP-2930, unsigned, one access-list entry"),
                 ("c06l_eip2930_signed", "EIP-2930, signed, one access-list entry"),
                 ("c06l_eip1559_unsigned", "EIP-1559, unsigned, one access-list entry"),
                 ("c06l_eip1559_signed", "EIP-1559, signed, one access-list entry")]:
    H(nm, "transaction", ["C06", "C11", "C17"], timeout=900, mem_gb=6, auto_unwind=K256_UNWIND,
      functions=["transaction::Eip2930Transaction::rlp_encode" if "2930" in nm else "transaction::Eip1559Transaction::rlp_encode",
                 "transaction::rlp::iter", "account::Signature::{y_parity, r, s}"],
      inputs=what + ": every integer field symbolic (2^256 values each), recipient present/absent, 3 bytes of calldata, parity symbolic",
      bound="calldata 3 bytes; r, s fixed non-trivial constants", stubs=LIST_STUB,
      spec="type byte || ONE list of exactly [chainId, nonce, (gasPrice | maxPriorityFeePerGas, maxFeePerGas), gas, to-or-empty, value, data, "
           "accessList] followed by [yParity, r, s] iff signed, each leaf the value of that field, in this order")
for nm in ["c06l_eip2930_signed_sym_r", "c06l_eip1559_signed_sym_r"]:
    H(nm, "transaction", ["C06", "C07", "C17"], timeout=1200, mem_gb=9, auto_unwind=K256_UNWIND,
      functions=["transaction::Eip2930Transaction::rlp_encode" if "2930" in nm else "transaction::Eip1559Transaction::rlp_encode",
                 "account::Signature::{from_parts, y_parity, r, s}"],
      inputs="signed typed transaction; every integer field symbolic; r symbolic in its three leading bytes (leading zero bytes included), parity symbolic",
      bound="calldata 3 bytes, empty access list, s fixed", stubs=LIST_STUB,
      spec="as c06l_*_signed; r and s are emitted as canonical integers (a leaf encoded through rlp::bytes is accepted iff it is the minimal "
           "big-endian form of the integer)")
H("c06l_eip1559_symdata", "transaction", ["C06", "C17"], timeout=900, mem_gb=6, auto_unwind=K256_UNWIND,
  functions=["transaction::Eip1559Transaction::rlp_encode", "transaction::rlp::iter"],
  inputs="as c06l_eip1559_signed with calldata of symbolic length 0..=40 and symbolic content and an access list of 0, 1 or 2 entries",
  bound="calldata <= 40 bytes, access list <= 2 entries", stubs=LIST_STUB,
  spec="the data leaf is handed exactly the calldata (length and first 32 bytes compared), the access-list leaf exactly the list")
for nm in ["c06l_signing_message_legacy_nochain", "c06l_signing_message_legacy_chain", "c06l_signing_message_eip2930",
           "c06l_signing_message_eip1559"]:
    H(nm, "transaction", ["C06", "C11", "C17"], timeout=900, mem_gb=6, auto_unwind=K256_UNWIND,
      functions=["transaction::Transaction::signing_message", "transaction::Transaction::rlp_encode"],
      inputs="transaction of that kind with every integer field symbolic, recipient present/absent", bound="calldata 2 bytes, empty access list",
      stubs=LIST_STUB + ["ethdigest::Digest::of -> uninterpreted recorder"], trusted=["Keccak-256 (ethdigest/sha3)"],
      spec="exactly one Keccak over exactly the unsigned payload (type byte || list) built from the same leaves in the same order")
H("c06l_encode_dispatch", "transaction", ["C06", "C17"], timeout=2400, mem_gb=20, auto_unwind=K256_UNWIND,
  functions=["transaction::Transaction::encode", "transaction::Transaction::rlp_encode"],
  inputs="transaction kind symbolic (legacy with/without chain id, EIP-2930, EIP-1559), all integer fields symbolic, parity symbolic",
  bound="calldata 2 bytes, empty access list", stubs=LIST_STUB,
  spec="Transaction::encode(sig) produces the same leaves, the same list and the same output as the per-kind encoder with Some(sig)")
for e, s0, s1 in [(0, 0, 0), (1, 0, 0), (1, 1, 0), (1, 2, 0), (2, 1, 0), (2, 0, 2), (2, 2, 2)]:
    H(f"c06a_alist_{e}_{s0}_{s1}", "transaction", ["C06", "C07", "C17"], timeout=1500, mem_gb=24,
      functions=["transaction::accesslist::AccessList::rlp_encode", "transaction::accesslist::StorageSlot::rlp_encode",
                 "transaction::rlp::iter"],
      inputs=f"{e} entries with {s0} and {s1} storage keys (shape concrete per query), addresses and keys symbolic",
      bound="<= 2 entries x <= 2 keys", stubs=[LIST_STUB[1], "transaction::rlp::bytes -> recorder (logs the byte string, returns a placeholder)"],
      spec="[[address, [key, ...]], ...]: per entry one list of its 32-byte keys, one two-item list [address, keys], one outer list of the "
           "entries, everything in declaration order")
for e, s0, s1 in [(0, 0, 0), (1, 0, 0), (1, 1, 0), (1, 2, 0), (2, 1, 0), (2, 0, 2), (2, 2, 2)]:
    H(f"c06i_alist_{e}_{s0}_{s1}", "transaction", ["C06", "C07", "C17"], timeout=900, mem_gb=6,
      functions=["transaction::accesslist::AccessList::rlp_encode", "transaction::accesslist::StorageSlot::rlp_encode"],
      inputs=f"{e} entries with {s0} and {s1} storage keys (shape concrete per query), addresses and keys symbolic",
      bound="<= 2 entries x <= 2 keys",
      stubs=[LIST_STUB[1], "transaction::rlp::bytes -> recorder (logs the byte string, returns a placeholder)",
             "transaction::rlp::iter -> recorder (drives the iterator, logs the placeholders it yields, returns a fresh placeholder); its "
             "contract (the list of the yielded items, in iteration order) is decided in c07_iter_*"],
      spec="[[address, [key, ...]], ...]: per entry one list of its 32-byte keys in the given order (no sorting, no de-duplication), one "
           "two-item list [address, keys], one outer list of the entries, everything in declaration order")
H("c11_cli_guard", "cmd_sign", ["X11"], timeout=1500, mem_gb=9, auto_unwind=K256_UNWIND,
  functions=["cmd::sign::run (Input::Transaction arm)"],
  inputs="transaction kind symbolic (legacy with/without chain id, EIP-2930, EIP-1559), chain id one symbolic byte, --signature-only and "
         "--allow-missing-relay-protection symbolic, JSON parser verdict symbolic, digest and signature parity symbolic",
  bound="one invocation; field values other than the chain id fixed (the guard does not look at them)",
  stubs=["cmd::AccountOptions::private_key -> fixed key (recorder)", "cmd::read_input -> empty input (recorder)",
         "serde_json::from_slice::<Transaction> -> the harness' symbolic transaction or an error (recorder)",
         "Transaction::signing_message -> symbolic digest (recorder; decided in C06)", "Transaction::encode -> placeholder, notes the "
         "signature it is given (decided in C06)", "PrivateKey::sign -> records the digest, returns a signature of symbolic parity (C05: "
         "cryptography, trusted)", "std::io::_print -> counts invocations", "hex::encode -> empty string"] + NOFMT,
  spec="a legacy transaction without chain id is refused unless the override flag is given -- in BOTH output modes, before anything is "
       "signed or printed; every other transaction is signed exactly once over its signing digest and exactly one line is printed; the "
       "full output carries the signature just made; a parse error signs and prints nothing")
for nm in ["c08_closure_p", "c08_closure_a", "c08_closure_b"]:
    H(nm, "typeddata", ["X08"], timeout=2400, mem_gb=14,
      functions=["typeddata::Types::encode_type (work-list, BTreeMap of sub-types)", "typeddata::TypeDefinition::struct_references",
                 "typeddata::MemberKind::struct_reference"],
      inputs="all 4^6 reference graphs on the types A, B, P (two members each, every member a reference to A, B, P or the leaf type Z); "
             "primary type fixed per query", bound="3 struct types with 2 members + 1 leaf type",
      stubs=["typeddata::Types::type_definition -> table look-up that logs which definition is resolved",
             "std::hash::RandomState::new -> fixed keys"] + NOFMT,
      spec="the primary type is resolved first; then exactly the transitively referenced types other than the primary, each exactly once; "
           "number of top-level renderings = 4 + number of sub-types. Name order of the output (BTreeMap) and the text of the definitions "
           "(Display) are not decided here")
for nm in ["c08_encode_type_concrete_0", "c08_encode_type_concrete_all"]:
    H(nm, "typeddata", ["X08"], timeout=2400, mem_gb=14, functions=["typeddata::Types::encode_type (real BTreeMap, real Display / write!)"],
      inputs="a symbolic choice among seven CONCRETE reference graphs (member orders [B, A, A] / [A, A, B], self-recursive primary type, mutual "
             "recursion through the primary type, diamond, recursion among sub-types, no references)",
      bound="seven concrete graphs; did not finish in 25 min even for one graph", stubs=CAP_STUBS,
      spec="exact encodeType text: primary type first, then the transitively referenced types once each in name order")
for m in range(8):
    H(f"c08_struct_hash_m{m}", "typeddata", ["X08"], timeout=1800, mem_gb=12,
      functions=["typeddata::Types::struct_hash", "serde_json::Map::{insert, remove, is_empty} (real BTreeMap)"],
      inputs="struct T { bool a; string b }; message object holding the subset of the keys a, b (declared), c (undeclared) given by the bit mask "
             f"{m:03b} (concrete per query); c's value a number or null; typeHash, member words and per-member encoding verdicts symbolic",
      bound="two declared members, three candidate keys",
      stubs=["typeddata::Types::type_definition -> table look-up", "typeddata::Types::type_hash -> recorder (symbolic typeHash; encodeType "
             "itself is decided separately)", "typeddata::Types::encode_value -> recorder (logs member and value, symbolic word or error; "
             "atoms decided in c08_atom_* / c09_*)", "ethdigest::Digest::of -> uninterpreted recorder"],
      spec="Ok iff exactly the declared members are present and every value encodes: one Keccak over typeHash || word(a) || word(b) in "
           "declaration order, each value paired with its own member; missing / undeclared member or encoding error -> Err, nothing hashed")
H("c08_struct_hash_empty", "typeddata", ["X08"], timeout=1200, mem_gb=9,
  functions=["typeddata::Types::struct_hash"], inputs="struct T with no members; value {} or {c: null}", bound="memberless struct",
  stubs=["typeddata::Types::type_definition -> table look-up", "typeddata::Types::type_hash -> recorder (symbolic typeHash)",
         "ethdigest::Digest::of -> uninterpreted recorder"],
  spec="hashStruct of a memberless struct is one Keccak over exactly the 32-byte typeHash; an undeclared member is refused")
H("c06_kind_dispatch", "transaction", ["X06"], timeout=900, mem_gb=9,
  functions=["<Transaction as Deserialize>::deserialize"], inputs="JSON object with a symbolic subset of seven keys",
  bound="does not compile: Kani 0.68 internal compiler error in codegen_get_discriminant (niche of Result<Eip1559Transaction, _> "
        "lives in Vec's capacity field, 2^63 does not fit the i64 Kani converts it to)", spec="kind selection by keys")

# =========================================================================================== C13 string leaves (error text cut)
for n, tiers in [(2, 0), (3, 0), (4, 0), (6, 0), (8, 0)]:
    H(f"c13n_bytes_{n}", "serialization", ["C13", "C17"], timeout=1800, mem_gb=(14 if n >= 8 else 9),
      functions=["serialization::bytes::deserialize::<serde_json::Value>", "hex::decode (real)", "str::strip_prefix"],
      inputs=f"JSON string: every ASCII string of exactly {n} bytes", bound=f"{n} bytes", stubs=NOFMT,
      spec="Ok iff 0x + an even number of hex digits of either case, value = those bytes; anything else Err")
for n in (1, 2, 3, 4, 6):
    H(f"c13n_numstr_{n}", "serialization", ["C13", "C17"], timeout=1800, mem_gb=9,
      functions=["serialization::num::deserialize::<serde_json::Value>", "ethnum::serde::permissive (string visitor, real)"],
      inputs=f"JSON string: every ASCII string of exactly {n} bytes", bound=f"{n} bytes", stubs=NOFMT,
      spec="decimal digits or 0x + hex digits denote exactly that integer; everything else (empty, sign '-', spaces, bare 0x, non-digits) "
           "is refused; a leading '+' is don't-care")
for l in (31, 32, 33):
    H(f"c13n_slot_{l}", "serialization", ["C13", "C17"], timeout=1800, mem_gb=9,
      functions=["serialization::bytearray::deserialize::<serde_json::Value, 32>", "hex::decode_to_slice (real)"],
      inputs=f"JSON string 0x + {l} symbolic bytes in hex (case symbolic)", bound=f"{l} bytes", stubs=NOFMT,
      spec="a storage key is accepted iff it is exactly 32 bytes, value = those bytes")
for l in (19, 20, 21):
    H(f"c13n_address_{l}", "serialization", ["C13", "C17"], timeout=1800, mem_gb=9,
      functions=["<Option<ethaddr::Address> as Deserialize>::deserialize::<serde_json::Value>"],
      inputs=f"JSON string: [0x] + {l} symbolic bytes in lower-case hex", bound=f"{l} bytes", stubs=NOFMT,
      spec="a recipient is accepted iff it is 0x + exactly 20 bytes, value = those bytes")

for nm, tiers in [("c08_kind_width_uint", (Q, T)), ("c08_kind_width_int", (Q, T)), ("c08_kind_width_bytes", (Q, T)),
                  ("c08_kind_width_uint_array", (T,)), ("c08_kind_width_bytes_array", (Q, T))]:
    H(nm, "typeddata", ["C08", "C09", "C20", "C17"], tiers=tiers, timeout=1800, mem_gb=9,
      # CBMC unwinds recursion at every call site up to the harness bound (1 + 2 + 3 + 5 + 8 copies of the parser at depth 5) and
      # CBMC 6 has no per-function recursion bound, so the HARNESS bound is 2 (one level of recursion: one array suffix) and every
      # loop gets its own bound through the automatic --unwindset retries
      max_retries=6,
      auto_unwind={"memcmp": 12, "from_ascii": 6, "check_width": 5, "memrchr": 14, "memchr": 14, "pattern": 14, "binary_search": 8,
                   "chars": 14, "str": 14, "Searcher": 14},
      functions=["typeddata::MemberKind::from_str"],
      inputs="concrete prefix uint/int/bytes + 1..=3 symbolic decimal digits (every width 0..=999 in every spelling) [+ '[]']",
      bound="three digits",
      spec="bytesN iff 1 <= N <= 32; uintN/intN iff N % 8 = 0 and 8 <= N <= 256 with exactly that width; anything else is a struct "
           "name (redundant leading zeros are don't-care)")


for nm in ["c02_cap_empty", "c02_cap_ascii", "c02_cap_accent"]:
    H(nm, "mnemonic", ["X02"], timeout=2400, mem_gb=14, files=["wordlist"], functions=["mnemonic::Mnemonic::seed"],
      inputs="experiment", bound="experiment", spec="experiment")
for nm in ["c08_encode_type_names_p_cap", "c08_encode_type_names_a_cap"]:
    H(nm, "typeddata", ["X08"], timeout=2400, mem_gb=14, functions=["typeddata::Types::encode_type"],
      inputs="experiment", bound="experiment", spec="experiment")
for nm in ["empty", "ascii", "accent", "fullwidth", "ligature", "enclosed", "astral", "mark", "reorder", "compat_reorder", "hangul", "mixed"]:
    H(f"c02_fixed_{nm}", "mnemonic", ["X02"], tiers=(T,), timeout=1800, mem_gb=9, files=["wordlist"],
      functions=["mnemonic::Mnemonic::seed", "mnemonic::Mnemonic::to_phrase", "format!(\"mnemonic{}\") (real)",
                 "unicode_normalization nfkd() (real)"],
      inputs="entropy buffer: all values, 5 lengths; passphrase concrete (one palette sequence per query, named in the harness)",
      bound="one concrete passphrase per query",
      stubs=["pbkdf2::pbkdf2 -> uninterpreted recorder", WL_STUBS[1], WL_STUBS[2]],
      trusted=["PBKDF2-HMAC-SHA512 computes the standard function", "NFKD expectations from the Unicode Character Database"],
      spec="one PBKDF2 call: password = canonical phrase of the stored entropy, salt = 'mnemonic' || UTF-8(NFKD(passphrase)), 2048 rounds, "
           "HMAC-SHA512, 64 bytes returned unchanged")

H("c15_spec_text", "signature", ["C15", "C17"], timeout=1800, mem_gb=20,
  functions=["account::signature::Signature::from_str", "hex::decode_to_slice", "ecdsa::Signature::from_scalars",
             "Signature::{r,s,y_parity}"],
  inputs="r, s: all scalars in (0, n); parity; with/without 0x; lower/upper-case digits; text rendered by the harness",
  bound="none beyond the text shape the property defines",
  spec="the printed form parses back to an equal signature")

for nm, inp, spec in [("c13_prim_u64", "any u64", "Ok(exactly that integer)"),
                      ("c13_prim_i64", "any i64", "v >= 0: Ok(v); v < 0: Err (never 2^256 - |v|)"),
                      ("c13_prim_f64", "any finite f64", "integral in [0, 2^53): Ok(exact value); negative, fractional or >= 2^53: never "
                                                         "accepted with another value")]:
    H(nm, "serialization", ["C13", "C09", "C17"], timeout=1800, mem_gb=9, cbmc_args="--unwindset memcmp.0:40",
      functions=["serialization::num::deserialize::<serde::de::value::{U64,I64,F64}Deserializer<serde_json::Error>> (NOT the "
                 "production instantiation D = serde_json::Value, which is c13_number_*)",
                 "ethnum::serde::permissive::deserialize::<U256, serde_json::Value> (real)"],
      inputs="number from " + inp, bound="none on the value", spec=spec,
      assumes=["serde_json::Value as a Deserializer hands a JSON number to the visitor as visit_u64/visit_i64/visit_f64 exactly like "
               "serde's primitive deserializers do (dependency behaviour; decided for D = Value only in the thorough tier)"])

H("c04_address_slicing", "account", ["C04", "C17"], timeout=1500, mem_gb=9,
  functions=["account::PrivateKey::address"],
  inputs="the 65-byte uncompressed encoding: tag 0x04 + 64 symbolic bytes (all 2^512 coordinate pairs, on the curve or not)",
  bound="none",
  stubs=["account::public::PublicKey::encode_uncompressed -> returns the harness' 65 bytes (its own contract is decided by c04_address)",
         "k256 mul / to_affine as in c04_address"] + KECCAK_STUB, trusted=KECCAK_TRUST,
  spec="exactly one Keccak over exactly bytes 1..65; address = digest[12..32]")

for nm in ["c08_encode_type_names_p", "c08_encode_type_names_a", "c08_encode_type_names_b"]:
    H(nm, "typeddata", ["C08", "C17"], tiers=(T,), timeout=3000, mem_gb=20,
      auto_unwind={"memcmp": 40, "fmt": 14, "btree": 14, "alloc": 14, "str": 14},
      functions=["typeddata::Types::encode_type", "TypeDefinition::struct_references", "Display for TypeDefinition / Member / MemberKind",
                 "BTreeMap insert/contains_key/values (real)"],
      inputs="struct types A, B, P with two members each; every member is Struct(<symbolic byte in {A,B,P,Z}>); Z is a leaf type",
      bound="4 type names, 2 members per type: all 4^6 reference graphs; primary type in the harness name",
      stubs=TD_STUB,
      spec="encodeType = primary definition followed by every transitively referenced struct type exactly once in name order, "
           "the primary never repeated")

for nm, inp, spec in [("c13_prim_f64_integral", "f = k as f64 for every integer k in (-2^53, 2^53)", "k >= 0: Ok(k); k < 0: Err"),
                      ("c13_prim_f64_fraction", "f = k + 0.5 for every integer k in (-2^51, 2^51)", "always Err")]:
    H(nm, "serialization", ["C13", "C09", "C17"], tiers=(T,), timeout=2400, mem_gb=24, cbmc_args="--unwindset memcmp.0:40",
      functions=["serialization::num::deserialize::<serde::de::value::F64Deserializer<serde_json::Error>> (not the production "
                 "instantiation D = serde_json::Value)", "ethnum::serde::permissive::deserialize (real, incl. its f64 range/fraction checks)"],
      inputs=inp, bound="floats of that form", spec=spec)

H("c13_prim_f64_small", "serialization", ["C13", "C09", "C17"], tiers=(T,), timeout=2400, mem_gb=14, cbmc_args="--unwindset memcmp.0:40",
  functions=["serialization::num::deserialize::<serde::de::value::F64Deserializer<serde_json::Error>> (not the production instantiation)"],
  inputs="f = +k or -k as f64 for every k in 0..=255", bound="|f| <= 255, integral",
  spec="non-negative: Ok(k); negative (except -0.0): Err")

# Leaf contracts that the structure claims of C06 and C11 are composed with (assume-guarantee): the checks of C06 and C11
# run them too, so that a change that breaks the byte-exact statement only through a leaf encoder (seeded C06-1, C11-3) is
# reported under those properties as well.
for _h in HARNESSES:
    if _h["name"] in ("c07_len", "c07_bytes_055", "c07_bytes_056", "c07_bytes_symlen", "c07_list_20_20_15", "c07_list_21_20_15",
                      "c07_bytes_001", "c07_iter_1_33_21") and "C06" not in _h["props"]:
        _h["props"].append("C06")
    if _h["name"] in ("c07_uint", "c07_bytes_001", "c07_bytes_symlen") and "C11" not in _h["props"]:
        _h["props"].append("C11")

# ================================================================================================ tiers
# The quick tier is restricted to queries that were measured to finish in seconds to a few minutes on the pinned tree
# (figures in DESIGN.md / the evidence files); everything else runs in the thorough tier only.
QUICK_SET = set("""
c01_len_table c01_unpack_12 c01_unpack_15 c01_unpack_24 c01_layout_12 c01_to_phrase
c01_count_00 c01_count_11 c01_count_13 c01_count_14 c01_count_17 c01_count_23 c01_count_25
c12_random c12_get_entropy
c03_master_s64 c03_master_s65
c04_new_00 c04_new_23 c04_new_31 c04_new_32 c04_new_33 c04_address c04_address_slicing
c07_len c07_bytes_000 c07_bytes_001 c07_bytes_002 c07_bytes_055 c07_bytes_056 c07_bytes_057 c07_bytes_128 c07_bytes_symlen
c07_uint c07_list_0_0_0 c07_list_20_20_15 c07_list_21_20_15 c07_iter_1_33_21 c07_list_empty c07_iter_100_100_56 c06_alist_empty
c06_legacy_unsigned_nochain c06_legacy_unsigned_chain c06_legacy_signed_nochain c06_legacy_signed_chain
c06l_eip2930_unsigned c06l_eip2930_signed c06l_eip1559_unsigned c06l_eip1559_signed c06l_signing_message_eip2930
c06l_signing_message_eip1559 c06l_eip1559_symdata c06l_eip2930_signed_sym_r
c06i_alist_0_0_0 c06i_alist_1_1_0 c06i_alist_1_2_0 c06i_alist_2_1_0
c19_filtercap_ascii_4 c19_filtercap_ascii_8 c19_filtercap_ascii_12 c19_filtercap_unicode c19_hexcap_ascii4 c19_respell_1
c13n_bytes_2 c13n_bytes_4
c16_account_default c16_account_hd_path c16_account_bad_path
c06l_signing_message_legacy_nochain c06l_signing_message_legacy_chain c06_sig_accessors c11_v c11_v_kf_d7
c08_final_digest c08_atom_string c08_atom_bytes_dynamic c09_uint_range c09_int_range
c09_bytes1_len0 c09_bytes1_len1 c09_bytes1_len2 c09_bytes4_len3 c09_bytes31_len32 c09_bytes32_len31 c09_bytes32_len32 c09_bytes32_len33
c10_digest_000 c10_digest_009 c10_digest_010 c10_digest_symlen
c13_numstr_0 c13_prim_u64 c13_prim_i64 c13_number_u64
c14_component c14_path_ascii_2 c14_path_ascii_3
c15_parse_130 c15_parse_132 c15_parse_other_lengths c15_spec_text
c18_prefix_5
c20_domain_0 c20_domain_1 c20_domain_2 c20_domain_3 c20_domain_missing
""".split())
# The thorough tier adds deeper queries that were measured to finish under their caps. Every other registered harness
# is a documented *attempt* (tier "attempt": `bin/check <id> --tier attempt`), not part of any MANIFEST command: on the
# unchanged tree it ends inconclusive (timeout / memory cap), and an inconclusive check is not a verdict.
THOROUGH_EXTRA = set("""
c01_unpack_18 c01_unpack_21 c01_count_01 c01_count_02 c01_count_03 c01_count_06 c01_count_09 c01_count_10 c01_count_16
c01_count_19 c01_count_20 c01_count_22 c01_count_26 c01_count_27 c01_count_30 c01_count_33 c01_count_36 c01_count_40
c03_master_s16 c03_master_s32 c03_master_s96 c03_d1_hardened_s64 c03_d1_normal_s64
c04_new_01 c04_new_16 c04_new_24 c04_new_40 c04_new_64
c06_signing_message_legacy_chain c06_signing_message_legacy_nochain c06_eip2930_unsigned c06l_encode_dispatch
c06i_alist_1_0_0 c06i_alist_2_0_2 c06i_alist_2_2_2 c06l_eip1559_signed_sym_r
c19_filtercap_ascii_3 c19_filtercap_ascii_6 c19_filtercap_ascii_16 c19_hexcap_ascii6 c19_hexcap_unicode c19_respell_0 c19_respell_3
c13n_bytes_3 c13n_bytes_6 c13n_bytes_8
c07_bytes_003 c07_bytes_020 c07_bytes_032 c07_bytes_033 c07_bytes_054 c07_bytes_064 c07_bytes_100 c07_bytes_255 c07_bytes_256
c07_bytes_257 c07_list_1_0_2 c07_list_33_33_33 c07_iter_0_0_0
c09_bytes4_len4 c09_bytes4_len5 c09_bytes31_len31
c18_prefix_7
c20_domain_4 c20_domain_5
""".split())
for _h in HARNESSES:
    _t = []
    if _h["name"] in QUICK_SET:
        _t.append(Q)
    if _h["name"] in QUICK_SET or _h["name"] in THOROUGH_EXTRA:
        _t.append(T)
    _h["tiers"] = _t or ["attempt"]

C17_QUICK = set("""
c01_len_table c01_count_14 c01_count_23 c01_count_25 c01_unpack_12 c12_random c04_new_32 c07_len c07_bytes_symlen
c11_v c11_v_kf_d7 c14_component c15_parse_other_lengths c15_parse_132 c13_numstr_0 c18_prefix_5 c09_int_range c20_domain_1
c10_digest_symlen c19_filtercap_ascii_8 c13n_bytes_4 c06l_eip1559_symdata c16_account_bad_path
""".split())

# C11's quick tier runs this subset of the C11-tagged harnesses (the full set repeats most of C06's structure queries and took more
# than 900 s when run on its own in a fresh sandbox); the thorough tier runs all of them
C11_QUICK = set("""
c11_v c11_v_kf_d7 c07_bytes_001 c07_uint c06_legacy_unsigned_chain c06_legacy_signed_chain c06l_eip2930_unsigned c06l_eip1559_unsigned
c06l_signing_message_legacy_chain
""".split())
