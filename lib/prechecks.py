"""Native prechecks: concrete validation of the contracts that Kani stubs assume (never the deciding
step of a property; see DESIGN.md 0.3)."""
import hashlib
import os
import shutil
import subprocess
from pathlib import Path

VERIF = Path(__file__).resolve().parent.parent
CACHE = VERIF / ".cache"
CANONICAL_ENGLISH_SHA256 = "2f5eed53a4727b4bf8880d8f3f199efc90e58503646d9ff8eff3a2ed3b24dbda"


def build_native(repo, root):
    d = root / "native"
    if (d / "target" / "debug" / "hdw-native").exists():
        return d / "target" / "debug" / "hdw-native"
    shutil.copytree(VERIF / "native", d)
    (d / "Cargo.toml").write_text(
        '[package]\nname = "hdw-native"\nversion = "0.0.0"\nedition = "2021"\n\n[workspace]\n\n'
        f'[dependencies]\nhdwallet = {{ path = "{repo}" }}\n')
    # the scratch copy carries [patch] entries for the Kani build; the native build must use the real crates
    native_repo = root / "repo-native"
    if not native_repo.exists():
        shutil.copytree(repo, native_repo, ignore=shutil.ignore_patterns("target"))
        toml = (native_repo / "Cargo.toml").read_text()
        (native_repo / "Cargo.toml").write_text(toml.split("\n[patch.crates-io]")[0])
        shutil.copy(os.environ.get("VERIF_REPO", "/repo") + "/Cargo.lock", native_repo / "Cargo.lock")
    (d / "Cargo.toml").write_text((d / "Cargo.toml").read_text().replace(str(repo), str(native_repo)))
    shutil.copy(os.environ.get("VERIF_REPO", "/repo") + "/Cargo.lock", d / "Cargo.lock")
    shutil.copytree(CACHE / "replay-target", d / "target", symlinks=True)
    e = dict(os.environ, CARGO_NET_OFFLINE="true", CARGO_TARGET_DIR=str(d / "target"))
    r = subprocess.run(["cargo", "build", "--offline"], cwd=d, env=e, stdout=subprocess.PIPE, stderr=subprocess.STDOUT, text=True)
    if r.returncode != 0:
        raise RuntimeError("native helper build failed:\n" + r.stdout[-3000:])
    return d / "target" / "debug" / "hdw-native"


def wordlist_contract(repo, root, tier):
    """The embedded list is the canonical BIP-39 English list and, through the public API, every index
    0..2047 parses and prints back; near-miss words are refused."""
    name = "wordlist_contract"
    path = repo / "src" / "mnemonic" / "wordlist" / "english.txt"
    data = path.read_bytes()
    words = data.decode().strip().split("\n")
    problems = []
    if hashlib.sha256(data).hexdigest() != CANONICAL_ENGLISH_SHA256:
        problems.append("english.txt is not the canonical BIP-39 list (sha256 differs)")
    if len(words) != 2048 or any(a >= b for a, b in zip(words, words[1:])):
        problems.append("english.txt is not 2048 strictly ascending lines")
    try:
        tool = build_native(repo, root)
    except Exception as ex:  # noqa: BLE001
        return {"name": name, "status": "inconclusive", "detail": str(ex)[-500:]}
    canonical = words if not problems else None
    if canonical is None:
        return {"name": name, "status": "fail", "detail": "; ".join(problems), "input": str(path)}
    cmds, expect = [], []
    for i in range(2048):
        ent = (i << 117).to_bytes(16, "big")
        cs = hashlib.sha256(ent).digest()[0] >> 4
        phrase = " ".join([canonical[i]] + [canonical[0]] * 10 + [canonical[cs]])
        cmds.append("parse\t" + phrase)
        expect.append("ok\t12\t" + phrase)
    # the same word in the last (checksum bearing) position: entropy all zero except the top 7 bits of the last index
    for i in range(0, 2048, 16):
        ent = (i >> 4).to_bytes(16, "big")
        cs = hashlib.sha256(ent).digest()[0] >> 4
        phrase = " ".join([canonical[0]] * 11 + [canonical[(i & ~15) | cs]])
        cmds.append("parse\t" + phrase)
        expect.append("ok\t12\t" + phrase)
    # near-miss spellings of a word in an otherwise VALID phrase (abandon x11 about): must be refused, so that
    # "search finds nothing but the exact list words" is validated and not masked by a checksum failure
    ent0 = (0).to_bytes(16, "big")
    about = canonical[hashlib.sha256(ent0).digest()[0] >> 4]
    cmds.append("parse\t" + " ".join([canonical[0]] * 11 + [about]))
    expect.append("ok\t12\t" + " ".join([canonical[0]] * 11 + [about]))
    for bad in ["zzzz", "abandonx", "Abandon", "ABANDON", "abando", "abandon\u0301", "aband0n", "\uff41bandon"]:
        for pos in (0, 5):
            words = [canonical[0]] * 11 + [about]
            words[pos] = bad
            cmds.append("parse\t" + " ".join(words))
            expect.append("err")
    r = subprocess.run([str(tool)], input="\n".join(cmds) + "\n", stdout=subprocess.PIPE, text=True)
    got = r.stdout.split("\n")[:len(cmds)]
    bad = [(c, e, g) for c, e, g in zip(cmds, expect, got) if e != g]
    if r.returncode != 0 or len(got) != len(cmds):
        return {"name": name, "status": "inconclusive", "detail": f"native helper exited with {r.returncode}"}
    if bad:
        c, e, g = bad[0]
        return {"name": name, "status": "fail", "detail": f"{len(bad)} of {len(cmds)} phrases differ; first: expected {e!r} got {g!r}",
                "input": c, "expected": e, "got": g}
    return {"name": name, "status": "pass", "detail": f"{len(cmds)} phrases through Mnemonic::from_phrase/to_phrase; "
            "list sha256 = canonical BIP-39 English", "cases": len(cmds)}
