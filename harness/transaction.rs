//! C06 / C11 / C07: Kani harnesses for the transaction encoders (spliced into src/transaction.rs).
//! Structure harnesses: the leaf encoders (`rlp::uint`, `rlp::bytes`, `AccessList::rlp_encode`) are
//! recorders that log what they are asked to encode and return a one-byte placeholder; their own
//! contracts are decided for all inputs in the C07 harnesses (assume-guarantee).
#![allow(static_mut_refs)]
use super::*;
use crate::__verif_common::*;
use crate::transaction::accesslist::{AccessList, StorageSlot};
use ethaddr::Address;
use ethnum::U256;

const K_UINT: u8 = 1;
const K_BYTES: u8 = 2;
const K_ALIST: u8 = 3;
const MAXLOG: usize = 26;
static mut LOG_KIND: [u8; MAXLOG] = [0; MAXLOG];
static mut LOG_VAL: [[u8; 32]; MAXLOG] = [[0; 32]; MAXLOG];
static mut LOG_LEN: [usize; MAXLOG] = [0; MAXLOG];
static mut LOG_N: usize = 0;

fn log_push(kind: u8, val: [u8; 32], len: usize) -> Vec<u8> {
    unsafe {
        let i = LOG_N;
        assert!(i < MAXLOG, "more fields encoded than any transaction type has");
        LOG_KIND[i] = kind;
        LOG_LEN[i] = len;
        LOG_VAL[i] = val;
        LOG_N = i + 1;
        vec![(i + 1) as u8] // placeholder: a single byte below 0x80, distinct per call
    }
}
/// first (up to) 32 bytes of a byte string, zero padded (no per-byte loop)
fn head32(bytes: &[u8]) -> [u8; 32] {
    let mut val = [0u8; 32];
    let n = if bytes.len() < 32 { bytes.len() } else { 32 };
    copy_bytes_sym::<2>(&mut val, &bytes[..n]);
    val
}
fn uint_stub(value: U256) -> Vec<u8> {
    log_push(K_UINT, value.to_be_bytes(), 32)
}
fn bytes_stub(bytes: &[u8]) -> Vec<u8> {
    log_push(K_BYTES, head32(bytes), bytes.len())
}
fn alist_stub(list: &AccessList) -> Vec<u8> {
    log_push(K_ALIST, [0; 32], list.0.len())
}

macro_rules! structure_harness {
    ($(#[$m:meta])* fn $name:ident() $body:block) => {
        crate::verif_harness! {
            #[kani::stub(crate::transaction::rlp::uint, uint_stub)]
            #[kani::stub(crate::transaction::rlp::bytes, bytes_stub)]
            #[kani::stub(crate::transaction::accesslist::AccessList::rlp_encode, alist_stub)]
            #[kani::stub(ethdigest::Digest::of, crate::__verif_common::digest_of_stub80)]
            $(#[$m])*
            fn $name() $body
        }
    };
}

// `rlp::list` as a recorder as well (its own contract -- header(total length) || items in order -- is decided for
// arbitrary item contents in c07_list_* / c07_iter_*): logs the first byte and the length of every item it is
// handed and returns the one-byte placeholder 0xEE. With it the typed encoders reduce to "which leaves, in
// which order, are put into ONE list, and what is prepended".
const MAXITEMS: usize = 14;
static mut LIST_CALLS: usize = 0;
static mut LIST_N: usize = 0;
static mut LIST_FIRST: [u8; MAXITEMS] = [0; MAXITEMS];
static mut LIST_LEN: [usize; MAXITEMS] = [0; MAXITEMS];
fn list_stub(items: &[&[u8]]) -> Vec<u8> {
    unsafe {
        LIST_CALLS += 1;
        assert!(items.len() <= MAXITEMS, "more list items than any transaction type has");
        LIST_N = items.len();
        let mut i = 0;
        while i < MAXITEMS {
            if i < items.len() {
                LIST_LEN[i] = items[i].len();
                LIST_FIRST[i] = if items[i].len() > 0 { items[i][0] } else { 0 };
            }
            i += 1;
        }
        vec![0xee]
    }
}
macro_rules! structure_list_harness {
    ($(#[$m:meta])* fn $name:ident() $body:block) => {
        structure_harness! {
            #[kani::stub(crate::transaction::rlp::list, list_stub)]
            $(#[$m])*
            fn $name() $body
        }
    };
}
/// Does the recorded leaf-encoder call `l` encode the specified item? Integers may be encoded through `rlp::uint(v)` or, equivalently,
/// through `rlp::bytes` of the MINIMAL big-endian form of v (no leading zero byte; the empty string for zero): the two produce the
/// same bytes, so the specification accepts both and nothing else.
unsafe fn leaf_matches(l: usize, item: &Item) -> bool {
    if item.kind == K_UINT && LOG_KIND[l] == K_BYTES {
        let len = LOG_LEN[l];
        if len > 32 {
            return false;
        }
        let v = U256::from_be_bytes(item.val);
        if len == 0 {
            return v == U256::ZERO;
        }
        // head32 keeps the string left-aligned and zero-padded
        let as_int = U256::from_be_bytes(LOG_VAL[l]) >> (8 * (32 - len) as u32);
        return LOG_VAL[l][0] != 0 && as_int == v;
    }
    LOG_KIND[l] == item.kind && LOG_LEN[l] == item.len && eq32(&LOG_VAL[l], &item.val)
}

/// Checks the single `rlp::list` call against `items`: the placeholder at list position j identifies the leaf-encoder call that
/// produced it, and THAT call must have been given the j-th specified field. (The order in which the code happens to evaluate the
/// leaves is irrelevant; only the order of the list is specified.)
fn expect_list_encoding(items: &[Item], ty: Option<u8>, out: &[u8]) {
    if !stubs_active() {
        return native_expect(items, ty, out);
    }
    unsafe {
        assert!(LIST_CALLS == 1, "the payload is one RLP list");
        assert!(LIST_N == items.len(), "number of list items");
        let mut j = 0;
        while j < items.len() {
            assert!(LIST_LEN[j] == 1, "list item is not one encoded leaf");
            let p = LIST_FIRST[j] as usize;
            assert!(p >= 1 && p <= LOG_N, "list item is not the output of a leaf encoder");
            let l = p - 1;
            assert!(leaf_matches(l, &items[j]), "a field differs from the specified one (kind, length, value or order)");
            j += 1;
        }
    }
    match ty {
        Some(t) => assert!(out.len() == 2 && out[0] == t && out[1] == 0xee, "type byte || list"),
        None => assert!(out.len() == 1 && out[0] == 0xee, "bare list"),
    }
}

/// What the specification expects one list item to be.
#[derive(Clone, Copy)]
struct Item {
    kind: u8,
    val: [u8; 32],
    len: usize,
    /// the whole byte string (only read by the native reference encoder, for strings longer than 32 bytes)
    ptr: *const u8,
}
fn u(v: U256) -> Item {
    Item { kind: K_UINT, val: v.to_be_bytes(), len: 32, ptr: core::ptr::null() }
}
fn b(bytes: &[u8]) -> Item {
    Item { kind: K_BYTES, val: head32(bytes), len: bytes.len(), ptr: bytes.as_ptr() }
}
fn al(n: usize) -> Item {
    Item { kind: K_ALIST, val: [0; 32], len: n, ptr: core::ptr::null() }
}

// ------------------------------------------------------------------------------------------------
// Native replay (no stubs): an independent reference RLP encoder. Under concrete playback the real leaf encoders and
// the real `rlp::list` run, so a counterexample is confirmed by comparing the REAL output bytes with the reference
// encoding of the expected items -- not by looking at the (then empty) recorder logs.
fn ref_header(base: u8, len: usize, out: &mut Vec<u8>) {
    if len < 56 {
        out.push(base + len as u8);
    } else {
        let be = len.to_be_bytes();
        let skip = be.iter().take_while(|x| **x == 0).count();
        out.push(base + 55 + (8 - skip) as u8);
        out.extend_from_slice(&be[skip..]);
    }
}
fn ref_string(bytes: &[u8], out: &mut Vec<u8>) {
    if bytes.len() == 1 && bytes[0] < 0x80 {
        out.push(bytes[0]);
    } else {
        ref_header(0x80, bytes.len(), out);
        out.extend_from_slice(bytes);
    }
}
fn ref_list(payload: &[u8], out: &mut Vec<u8>) {
    ref_header(0xc0, payload.len(), out);
    out.extend_from_slice(payload);
}
/// reference encoding of the access lists these harnesses use: entry k has the address [7 + k; 20] and no storage keys
fn ref_plain_access_list(n: usize, out: &mut Vec<u8>) {
    let mut entries = Vec::new();
    for k in 0..n {
        let mut entry = Vec::new();
        ref_string(&[7 + k as u8; 20], &mut entry);
        ref_list(&[], &mut entry);
        ref_list(&entry, &mut entries);
    }
    ref_list(&entries, out);
}
fn native_expect(items: &[Item], ty: Option<u8>, out: &[u8]) {
    let mut payload = Vec::new();
    for it in items {
        match it.kind {
            K_UINT => {
                let skip = it.val.iter().take_while(|x| **x == 0).count();
                ref_string(&it.val[skip..], &mut payload);
            }
            K_BYTES => {
                let full = if it.len == 0 { &[][..] } else { unsafe { core::slice::from_raw_parts(it.ptr, it.len) } };
                ref_string(full, &mut payload);
            }
            _ => ref_plain_access_list(it.len, &mut payload),
        }
    }
    let mut expected = Vec::new();
    if let Some(t) = ty {
        expected.push(t);
    }
    ref_list(&payload, &mut expected);
    assert!(out == &expected[..], "emitted bytes differ from the reference RLP encoding of the specified fields");
}

/// Checks the recorder log from `from` on against `items`, and `out` against
/// `type byte? || list header(count) || placeholders from+1..`.
fn expect_encoding(from: usize, items: &[Item], ty: Option<u8>, out: &[u8]) {
    if !stubs_active() {
        return native_expect(items, ty, out);
    }
    let skip = if let Some(t) = ty {
        assert!(out[0] == t, "transaction type byte");
        1
    } else {
        0
    };
    assert!(out.len() == skip + 1 + items.len(), "output length");
    assert!(out[skip] == 0xc0 + items.len() as u8, "list header");
    unsafe {
        // the placeholder at list position i identifies the leaf-encoder call that produced it (evaluation order is irrelevant)
        let mut i = 0;
        while i < items.len() {
            let p = out[skip + 1 + i] as usize;
            assert!(p >= from + 1 && p <= LOG_N, "list item is not the output of a leaf encoder of this encoding");
            let l = p - 1;
            assert!(leaf_matches(l, &items[i]), "a field differs from the specified one (kind, length, value or order)");
            i += 1;
        }
    }
}

fn any_u256() -> U256 {
    let b: [u8; 32] = kani::any();
    U256::from_be_bytes(b)
}
fn any_to() -> Option<Address> {
    let present: bool = kani::any();
    let a: [u8; 20] = kani::any();
    if present {
        Some(Address(a))
    } else {
        None
    }
}
const R: [u8; 32] = [0x11; 32];
const S: [u8; 32] = [0x22; 32];
fn any_signature(signed: bool) -> (Option<crate::account::Signature>, u8) {
    let parity: u8 = kani::any();
    kani::assume(parity < 2);
    if signed {
        (
            Some(crate::account::Signature::from_parts(U256::from_be_bytes(R), U256::from_be_bytes(S), parity)),
            parity,
        )
    } else {
        (None, parity)
    }
}
/// A signature whose r is symbolic in its top three bytes (so r with one or two leading zero bytes, and r with a small first
/// byte, occur) and whose s is fixed; both are valid scalars by construction (top byte of r below 0xff).
fn any_signature_sym_r() -> (crate::account::Signature, u8, [u8; 32]) {
    let parity: u8 = kani::any();
    kani::assume(parity < 2);
    let top: [u8; 3] = kani::any();
    kani::assume(top[0] < 0xff);
    let mut r = R;
    r[0] = top[0];
    r[1] = top[1];
    r[2] = top[2];
    (crate::account::Signature::from_parts(U256::from_be_bytes(r), U256::from_be_bytes(S), parity), parity, r)
}
fn to_item(to: &Option<Address>) -> Item {
    match to {
        Some(a) => b(&a.0),
        None => b(&[]),
    }
}

// ---------------------------------------------------------------------------------------- legacy
fn check_legacy(signed: bool, has_chain: bool) {
        let data: [u8; 3] = kani::any();
        let chain = any_u256();
        // known finding D7 / C11 quantifier: chain ids for which 35 + 2c + 1 fits 256 bits
        kani::assume(chain < (U256::MAX >> 1) - 18u128);
        let tx = LegacyTransaction {
            nonce: any_u256(),
            gas_price: any_u256(),
            gas: any_u256(),
            to: any_to(),
            value: any_u256(),
            data: data.to_vec(),
            chain_id: if has_chain { Some(chain) } else { None },
        };
        let (sig, parity) = any_signature(signed);
        unsafe { LOG_N = 0; }
        let out = tx.rlp_encode(sig);
        let head = [u(tx.nonce), u(tx.gas_price), u(tx.gas), to_item(&tx.to), u(tx.value), b(&data)];
        let mut items = [head[0]; 9];
        let mut n = 0;
        while n < 6 {
            items[n] = head[n];
            n += 1;
        }
        kani::cover!(parity == 1 && tx.to.is_some(), "odd parity, recipient present");
        kani::cover!(tx.to.is_none(), "contract creation");
        if sig.is_some() {
            // v = 35 + 2c + parity, or 27 + parity (Signature::v itself: harness c11_v)
            let v = match tx.chain_id {
                Some(c) => (c << 1u32) + U256::new(35 + parity as u128),
                None => U256::new(27 + parity as u128),
            };
            items[6] = u(v);
            items[7] = u(U256::from_be_bytes(R));
            items[8] = u(U256::from_be_bytes(S));
            n = 9;
        } else if has_chain {
            items[6] = u(chain);
            items[7] = u(U256::ZERO);
            items[8] = u(U256::ZERO);
            n = 9;
        }
        expect_encoding(0, &items[..n], None, &out);
}
structure_harness! { #[kani::unwind(15)] fn c06_legacy_unsigned_nochain() { check_legacy(false, false) } }
structure_harness! { #[kani::unwind(15)] fn c06_legacy_unsigned_chain() { check_legacy(false, true) } }
structure_harness! { #[kani::unwind(34)] fn c06_legacy_signed_nochain() { check_legacy(true, false) } }
structure_harness! { #[kani::unwind(34)] fn c06_legacy_signed_chain() { check_legacy(true, true) } }

// --------------------------------------------------------------------------------------- EIP-2930
fn check_eip2930(signed: bool, nal: usize) {
        let data: [u8; 3] = kani::any();
        let tx = Eip2930Transaction {
            chain_id: any_u256(),
            nonce: any_u256(),
            gas_price: any_u256(),
            gas: any_u256(),
            to: any_to(),
            value: any_u256(),
            data: data.to_vec(),
            access_list: AccessList(if nal == 1 { vec![(Address([7; 20]), vec![])] } else { vec![] }),
        };
        let (sig, parity) = any_signature(signed);
        unsafe { LOG_N = 0; }
        let out = tx.rlp_encode(sig);
        let head = [u(tx.chain_id), u(tx.nonce), u(tx.gas_price), u(tx.gas), to_item(&tx.to), u(tx.value),
                    b(&data), al(nal)];
        let mut items = [head[0]; 11];
        let mut n = 0;
        while n < 8 {
            items[n] = head[n];
            n += 1;
        }
        kani::cover!(parity == 1 && tx.to.is_some(), "odd parity, recipient present");
        kani::cover!(tx.to.is_none(), "contract creation");
        if sig.is_some() {
            items[8] = u(U256::new(parity as u128));
            items[9] = u(U256::from_be_bytes(R));
            items[10] = u(U256::from_be_bytes(S));
            n = 11;
        }
        if unsafe { LIST_CALLS } > 0 {
            expect_list_encoding(&items[..n], Some(0x01), &out);
        } else {
            expect_encoding(0, &items[..n], Some(0x01), &out);
        }
}
// signed typed transactions with r symbolic in its leading bytes: r and s are emitted as minimal integers
fn check_typed_signed_sym_r(kind: u8) {
    let data: [u8; 3] = kani::any();
    let (sig, parity, r) = any_signature_sym_r();
    unsafe { LOG_N = 0; LIST_CALLS = 0; }
    let tail = [u(U256::new(parity as u128)), u(U256::from_be_bytes(r)), u(U256::from_be_bytes(S))];
    kani::cover!(r[0] == 0 && r[1] != 0, "r with one leading zero byte");
    kani::cover!(r[0] == 0 && r[1] == 0 && r[2] != 0, "r with two leading zero bytes");
    kani::cover!(r[0] >= 0x80, "r with the top bit set");
    if kind == 1 {
        let tx = Eip2930Transaction {
            chain_id: any_u256(), nonce: any_u256(), gas_price: any_u256(), gas: any_u256(), to: any_to(), value: any_u256(),
            data: data.to_vec(), access_list: AccessList(vec![]),
        };
        let out = tx.rlp_encode(Some(sig));
        let items = [u(tx.chain_id), u(tx.nonce), u(tx.gas_price), u(tx.gas), to_item(&tx.to), u(tx.value), b(&data), al(0),
                     tail[0], tail[1], tail[2]];
        expect_list_encoding(&items, Some(0x01), &out);
    } else {
        let tx = Eip1559Transaction {
            chain_id: any_u256(), nonce: any_u256(), max_priority_fee_per_gas: any_u256(), max_fee_per_gas: any_u256(), gas: any_u256(),
            to: any_to(), value: any_u256(), data: data.to_vec(), access_list: AccessList(vec![]),
        };
        let out = tx.rlp_encode(Some(sig));
        let items = [u(tx.chain_id), u(tx.nonce), u(tx.max_priority_fee_per_gas), u(tx.max_fee_per_gas), u(tx.gas), to_item(&tx.to),
                     u(tx.value), b(&data), al(0), tail[0], tail[1], tail[2]];
        expect_list_encoding(&items, Some(0x02), &out);
    }
}
structure_list_harness! { #[kani::unwind(15)] fn c06l_eip2930_signed_sym_r() { check_typed_signed_sym_r(1) } }
structure_list_harness! { #[kani::unwind(15)] fn c06l_eip1559_signed_sym_r() { check_typed_signed_sym_r(2) } }
structure_list_harness! { #[kani::unwind(15)] fn c06l_eip2930_unsigned() { check_eip2930(false, 1) } }
structure_list_harness! { #[kani::unwind(15)] fn c06l_eip2930_signed() { check_eip2930(true, 1) } }
structure_list_harness! { #[kani::unwind(15)] fn c06l_eip1559_unsigned() { check_eip1559(false, 1) } }
structure_list_harness! { #[kani::unwind(15)] fn c06l_eip1559_signed() { check_eip1559(true, 1) } }
structure_harness! { #[kani::unwind(15)] fn c06_eip2930_unsigned() { check_eip2930(false, 1) } }
structure_harness! { #[kani::unwind(34)] fn c06_eip2930_signed() { check_eip2930(true, 0) } }

// --------------------------------------------------------------------------------------- EIP-1559
fn check_eip1559(signed: bool, nal: usize) {
        let data: [u8; 3] = kani::any();
        let tx = Eip1559Transaction {
            chain_id: any_u256(),
            nonce: any_u256(),
            max_priority_fee_per_gas: any_u256(),
            max_fee_per_gas: any_u256(),
            gas: any_u256(),
            to: any_to(),
            value: any_u256(),
            data: data.to_vec(),
            access_list: AccessList(if nal == 1 { vec![(Address([7; 20]), vec![])] } else { vec![] }),
        };
        let (sig, parity) = any_signature(signed);
        unsafe { LOG_N = 0; }
        let out = tx.rlp_encode(sig);
        let head = [u(tx.chain_id), u(tx.nonce), u(tx.max_priority_fee_per_gas), u(tx.max_fee_per_gas), u(tx.gas),
                    to_item(&tx.to), u(tx.value), b(&data), al(nal)];
        let mut items = [head[0]; 12];
        let mut n = 0;
        while n < 9 {
            items[n] = head[n];
            n += 1;
        }
        kani::cover!(parity == 1 && tx.to.is_some(), "odd parity, recipient present");
        kani::cover!(tx.to.is_none(), "contract creation");
        if sig.is_some() {
            items[9] = u(U256::new(parity as u128));
            items[10] = u(U256::from_be_bytes(R));
            items[11] = u(U256::from_be_bytes(S));
            n = 12;
        }
        if unsafe { LIST_CALLS } > 0 {
            expect_list_encoding(&items[..n], Some(0x02), &out);
        } else {
            expect_encoding(0, &items[..n], Some(0x02), &out);
        }
}
structure_harness! { #[kani::unwind(15)] fn c06_eip1559_unsigned() { check_eip1559(false, 1) } }
structure_harness! { #[kani::unwind(34)] fn c06_eip1559_signed() { check_eip1559(true, 0) } }

// ---------------------------------------------------------------- Transaction::{signing_message, encode}
// The digest that is signed is Keccak-256 of exactly the unsigned payload; encode() is the payload
// with the signature; the enum dispatches to the matching encoder.
fn check_signing_message(kind: u8, has_chain: bool) {
        let data: [u8; 2] = kani::any();
        let chain = any_u256();
        kani::assume(chain < (U256::MAX >> 1) - 18u128);
        let tx = match kind {
            0 => Transaction::Legacy(LegacyTransaction {
                nonce: any_u256(), gas_price: any_u256(), gas: any_u256(), to: any_to(), value: any_u256(),
                data: data.to_vec(), chain_id: if has_chain { Some(chain) } else { None },
            }),
            1 => Transaction::Eip2930(Eip2930Transaction {
                chain_id: chain, nonce: any_u256(), gas_price: any_u256(), gas: any_u256(), to: any_to(),
                value: any_u256(), data: data.to_vec(), access_list: AccessList(vec![]),
            }),
            _ => Transaction::Eip1559(Eip1559Transaction {
                chain_id: chain, nonce: any_u256(), max_priority_fee_per_gas: any_u256(), max_fee_per_gas: any_u256(),
                gas: any_u256(), to: any_to(), value: any_u256(), data: data.to_vec(), access_list: AccessList(vec![]),
            }),
        };
        unsafe { LOG_N = 0; }
        // reference: the per-type encoder, already decided by the three harnesses above
        let unsigned = match &tx {
            Transaction::Legacy(t) => t.rlp_encode(None),
            Transaction::Eip2930(t) => t.rlp_encode(None),
            Transaction::Eip1559(t) => t.rlp_encode(None),
        };
        let fields = unsafe { LOG_N };
        let digest = tx.signing_message();
        kani::cover!(true, "reached");
        if stubs_active() {
            assert!(digest_calls() == 1, "exactly one Keccak invocation");
            // the second encoding logged the same number of fields, so placeholders are shifted by `fields`
            let mut pre = [0u8; 16];
            let mut i = 0;
            let skip = if kind == 0 { 0 } else { 1 };
            while i < unsigned.len() {
                pre[i] = if i > skip { unsigned[i] + fields as u8 } else { unsigned[i] };
                i += 1;
            }
            digest_expect80(0, &pre[..unsigned.len()], &digest.0);
            // and the fields hashed are the same values in the same order
            unsafe {
                assert!(LOG_N == 2 * fields);
                let mut i = 0;
                while i < fields {
                    assert!(LOG_KIND[i] == LOG_KIND[fields + i] && LOG_LEN[i] == LOG_LEN[fields + i]);
                    assert!(eq32(&LOG_VAL[i], &LOG_VAL[fields + i]), "signed payload differs from the unsigned encoding");
                    i += 1;
                }
            }
        } else {
            assert!(digest == Digest::of(&unsigned), "signing digest is not Keccak-256 of the unsigned payload");
        }
}
structure_harness! { #[kani::unwind(15)] fn c06_signing_message_legacy_nochain() { check_signing_message(0, false) } }
structure_harness! { #[kani::unwind(15)] fn c06_signing_message_legacy_chain() { check_signing_message(0, true) } }
structure_harness! { #[kani::unwind(15)] fn c06_signing_message_eip2930() { check_signing_message(1, true) } }
structure_harness! { #[kani::unwind(15)] fn c06_signing_message_eip1559() { check_signing_message(2, true) } }

// The same for the typed kinds with `rlp::list` as a recorder: the digest is one Keccak over exactly what the
// per-type encoder returns for `None` (type byte || the list), and the list is built from the same leaves.
fn check_signing_message_list(kind: u8) {
    check_signing_message_list_with(kind, true)
}
fn check_signing_message_list_with(kind: u8, has_chain: bool) {
        let data: [u8; 2] = kani::any();
        let chain = any_u256();
        let tx = match kind {
            0 => Transaction::Legacy(LegacyTransaction {
                nonce: any_u256(), gas_price: any_u256(), gas: any_u256(), to: any_to(), value: any_u256(),
                data: data.to_vec(), chain_id: if has_chain { Some(chain) } else { None },
            }),
            1 => Transaction::Eip2930(Eip2930Transaction {
                chain_id: chain, nonce: any_u256(), gas_price: any_u256(), gas: any_u256(), to: any_to(),
                value: any_u256(), data: data.to_vec(), access_list: AccessList(vec![]),
            }),
            _ => Transaction::Eip1559(Eip1559Transaction {
                chain_id: chain, nonce: any_u256(), max_priority_fee_per_gas: any_u256(), max_fee_per_gas: any_u256(),
                gas: any_u256(), to: any_to(), value: any_u256(), data: data.to_vec(), access_list: AccessList(vec![]),
            }),
        };
        unsafe { LOG_N = 0; LIST_CALLS = 0; }
        let unsigned = match &tx {
            Transaction::Legacy(t) => t.rlp_encode(None),
            Transaction::Eip2930(t) => t.rlp_encode(None),
            Transaction::Eip1559(t) => t.rlp_encode(None),
        };
        let fields = unsafe { LOG_N };
        let first_run = unsafe { LIST_FIRST };
        let digest = tx.signing_message();
        kani::cover!(true, "reached");
        if stubs_active() {
            assert!(digest_calls() == 1, "exactly one Keccak invocation");
            if kind == 0 {
                assert!(unsigned.len() == 1 && unsigned[0] == 0xee);
                assert!(fields == if has_chain { 9 } else { 6 }, "EIP-155: (chainId, 0, 0) appended iff a chain id is present");
                digest_expect80(0, &[0xee], &digest.0);
            } else {
                assert!(unsigned.len() == 2 && unsigned[0] == kind && unsigned[1] == 0xee);
                digest_expect80(0, &[kind, 0xee], &digest.0);
            }
            unsafe {
                assert!(LIST_CALLS == 2 && LIST_N == fields, "the signed payload is one list of the same fields");
                assert!(LOG_N == 2 * fields);
                let mut i = 0;
                while i < MAXITEMS {
                    if i < fields {
                        // leaf behind list position i in the unsigned encoding and in the hashed payload
                        let l1 = first_run[i] as usize - 1;
                        let l2 = LIST_FIRST[i] as usize - 1;
                        assert!(LIST_LEN[i] == 1 && l1 < fields && l2 >= fields && l2 < 2 * fields, "hashed payload: list of leaves");
                        assert!(LOG_KIND[l1] == LOG_KIND[l2] && LOG_LEN[l1] == LOG_LEN[l2]);
                        assert!(eq32(&LOG_VAL[l1], &LOG_VAL[l2]), "signed payload differs from the unsigned encoding");
                    }
                    i += 1;
                }
            }
        } else {
            assert!(digest == Digest::of(&unsigned), "signing digest is not Keccak-256 of the unsigned payload");
        }
}
structure_list_harness! { #[kani::unwind(15)] fn c06l_signing_message_legacy_nochain() { check_signing_message_list_with(0, false) } }
structure_list_harness! { #[kani::unwind(15)] fn c06l_signing_message_legacy_chain() { check_signing_message_list_with(0, true) } }
structure_list_harness! { #[kani::unwind(15)] fn c06l_signing_message_eip2930() { check_signing_message_list(1) } }
structure_list_harness! { #[kani::unwind(15)] fn c06l_signing_message_eip1559() { check_signing_message_list(2) } }

// Transaction::encode(signature) dispatches to the matching per-type encoder with Some(signature): decided as
// "same leaf log, same list, same output" as the direct call (all three kinds, kind symbolic).
structure_list_harness! {
    #[kani::unwind(15)]
    fn c06l_encode_dispatch() {
        let kind: u8 = kani::any();
        kani::assume(kind < 3);
        let data: [u8; 2] = kani::any();
        let chain = any_u256();
        kani::assume(chain < (U256::MAX >> 1) - 18u128);
        let has_chain: bool = kani::any();
        let tx = match kind {
            0 => Transaction::Legacy(LegacyTransaction {
                nonce: any_u256(), gas_price: any_u256(), gas: any_u256(), to: any_to(), value: any_u256(),
                data: data.to_vec(), chain_id: if has_chain { Some(chain) } else { None },
            }),
            1 => Transaction::Eip2930(Eip2930Transaction {
                chain_id: chain, nonce: any_u256(), gas_price: any_u256(), gas: any_u256(), to: any_to(),
                value: any_u256(), data: data.to_vec(), access_list: AccessList(vec![]),
            }),
            _ => Transaction::Eip1559(Eip1559Transaction {
                chain_id: chain, nonce: any_u256(), max_priority_fee_per_gas: any_u256(), max_fee_per_gas: any_u256(),
                gas: any_u256(), to: any_to(), value: any_u256(), data: data.to_vec(), access_list: AccessList(vec![]),
            }),
        };
        let (sig, _parity) = any_signature(true);
        let sig = sig.unwrap();
        unsafe { LOG_N = 0; LIST_CALLS = 0; }
        let direct = match &tx {
            Transaction::Legacy(t) => t.rlp_encode(Some(sig)),
            Transaction::Eip2930(t) => t.rlp_encode(Some(sig)),
            Transaction::Eip1559(t) => t.rlp_encode(Some(sig)),
        };
        let fields = unsafe { LOG_N };
        let out = tx.encode(sig);
        kani::cover!(kind == 0, "legacy");
        kani::cover!(kind == 1, "EIP-2930");
        kani::cover!(kind == 2, "EIP-1559");
        if !stubs_active() {
            assert!(out == direct, "encode() is not the per-type encoding with the signature");
            return;
        }
        assert!(out.len() == direct.len() && out[0] == direct[0], "encode() is not the per-type encoding");
        assert!(kind == 0 || (out.len() == 2 && out[0] == kind && out[1] == 0xee));
        unsafe {
            assert!(LIST_CALLS == 2 && LIST_N == fields && LOG_N == 2 * fields);
            let mut i = 0;
            while i < MAXITEMS {
                if i < fields {
                    assert!(LOG_KIND[i] == LOG_KIND[fields + i] && LOG_LEN[i] == LOG_LEN[fields + i]);
                    assert!(eq32(&LOG_VAL[i], &LOG_VAL[fields + i]), "encode() differs from the per-type encoding with the signature");
                }
                i += 1;
            }
        }
    }
}

// Calldata of symbolic length (0..=40 bytes, symbolic content) and an access list of symbolic length through the typed
// encoders: the leaf recorders see exactly that byte string / that list.
structure_list_harness! {
    #[kani::unwind(15)]
    fn c06l_eip1559_symdata() {
        let buf: [u8; 40] = kani::any();
        let dl: usize = kani::any();
        kani::assume(dl <= 40);
        let mut data = Vec::with_capacity(40);
        unsafe { core::ptr::copy_nonoverlapping(buf.as_ptr(), data.as_mut_ptr(), 40); data.set_len(dl); }
        let nal: usize = kani::any();
        kani::assume(nal <= 2);
        let access_list = AccessList(match nal {
            0 => vec![],
            1 => vec![(Address([7; 20]), vec![])],
            _ => vec![(Address([7; 20]), vec![]), (Address([8; 20]), vec![])],
        });
        let tx = Eip1559Transaction {
            chain_id: any_u256(), nonce: any_u256(), max_priority_fee_per_gas: any_u256(), max_fee_per_gas: any_u256(),
            gas: any_u256(), to: any_to(), value: any_u256(), data, access_list,
        };
        let (sig, parity) = any_signature(true);
        unsafe { LOG_N = 0; LIST_CALLS = 0; }
        let out = tx.rlp_encode(sig);
        let items = [u(tx.chain_id), u(tx.nonce), u(tx.max_priority_fee_per_gas), u(tx.max_fee_per_gas), u(tx.gas),
                     to_item(&tx.to), u(tx.value), b(&buf[..dl]), al(nal), u(U256::new(parity as u128)),
                     u(U256::from_be_bytes(R)), u(U256::from_be_bytes(S))];
        kani::cover!(dl == 40 && nal == 2, "forty bytes of calldata, two access list entries");
        kani::cover!(dl == 0 && nal == 0, "empty calldata, empty access list");
        kani::cover!(dl == 1, "one byte of calldata");
        expect_list_encoding(&items, Some(0x02), &out);
    }
}

// ---------------------------------------------------------------------------------- access list
// Real leaf encoders; one query per shape, addresses and slots symbolic.
fn spec_header(len: usize, list: bool, out: &mut [u8; 256], at: usize) -> usize {
    let base: u8 = if list { 0xc0 } else { 0x80 };
    if len < 56 {
        out[at] = base + len as u8;
        at + 1
    } else if len < 256 {
        out[at] = base + 56;
        out[at + 1] = len as u8;
        at + 2
    } else {
        out[at] = base + 57;
        out[at + 1] = (len >> 8) as u8;
        out[at + 2] = len as u8;
        at + 3
    }
}
fn header_size(len: usize) -> usize {
    if len < 56 { 1 } else if len < 256 { 2 } else { 3 }
}

fn check_access_list<const E: usize, const S0: usize, const S1: usize>() {
    let addrs: [[u8; 20]; 2] = kani::any();
    let slots: [[[u8; 32]; 2]; 2] = kani::any();
    let counts = [S0, S1];
    let mut v = Vec::new();
    let mut e = 0;
    while e < E {
        let mut sl = Vec::new();
        let mut k = 0;
        while k < counts[e] {
            sl.push(StorageSlot(slots[e][k]));
            k += 1;
        }
        v.push((Address(addrs[e]), sl));
        e += 1;
    }
    let out = AccessList(v).rlp_encode();
    kani::cover!(true, "reached");
    // expected: [[address, [slot, ...]], ...]
    let mut exp = [0u8; 256];
    let mut entry_len = [0usize; 2];
    let mut total = 0;
    let mut e = 0;
    while e < E {
        let sl = 33 * counts[e];
        entry_len[e] = 21 + header_size(sl) + sl;
        total += header_size(entry_len[e]) + entry_len[e];
        e += 1;
    }
    let mut at = spec_header(total, true, &mut exp, 0);
    let mut e = 0;
    while e < E {
        at = spec_header(entry_len[e], true, &mut exp, at);
        exp[at] = 0x94;
        at += 1;
        copy_bytes(&mut exp[at..], &addrs[e]);
        at += 20;
        at = spec_header(33 * counts[e], true, &mut exp, at);
        let mut k = 0;
        while k < counts[e] {
            exp[at] = 0xa0;
            at += 1;
            copy_bytes(&mut exp[at..], &slots[e][k]);
            at += 32;
            k += 1;
        }
        e += 1;
    }
    assert!(out.len() == at, "access list encoding length");
    assert!(bytes_eq(&out, &exp[..at]), "access list encoding differs from [[address, [slots]], ...]");
}
macro_rules! alist_harness {
    ($($name:ident = ($e:expr, $s0:expr, $s1:expr), $u:expr;)*) => {$(
        crate::verif_harness! { #[kani::unwind($u)] fn $name() { check_access_list::<$e, $s0, $s1>() } }
    )*};
}
alist_harness! {
    c06_alist_empty = (0, 0, 0), 4;
    c06_alist_1_0 = (1, 0, 0), 4;
    c06_alist_1_1 = (1, 1, 0), 6;
    c06_alist_1_2 = (1, 2, 0), 8;
    c06_alist_2_1_0 = (2, 1, 0), 8;
    c06_alist_2_2_2 = (2, 2, 2), 14;
}

// ------------------------------------------------------------------------------------------------
// Kind selection in `Deserialize for Transaction` (instantiation D = serde_json::Value): the JSON object holds a
// symbolic subset of seven keys -- the three that select the kind, two ordinary fields and two near misses that
// differ from a selecting key only in case -- and `serde_json::from_value::<T>` is a recorder that notes WHICH
// per-kind type it is asked to produce (and that it is handed an object) and fails. EIP-1559 iff a fee-market key is
// present, else EIP-2930 iff accessList is present, else legacy. Field binding inside each kind is serde-derive's.
static mut FV_CALLS: usize = 0;
static mut FV_KIND: u8 = 0;
static mut FV_OBJECT_LEN: usize = 0;
fn from_value_stub<T>(value: serde_json::Value) -> core::result::Result<T, serde_json::Error>
where
    T: serde::de::DeserializeOwned,
{
    let name = core::any::type_name::<T>();
    unsafe {
        FV_CALLS += 1;
        FV_KIND = if name.ends_with("LegacyTransaction") {
            0
        } else if name.ends_with("Eip2930Transaction") {
            1
        } else if name.ends_with("Eip1559Transaction") {
            2
        } else {
            9
        };
        FV_OBJECT_LEN = value.as_object().map_or(usize::MAX, |m| m.len());
    }
    core::mem::forget(value);
    Err(<serde_json::Error as serde::de::Error>::custom("recorder"))
}
const KEYS: [&str; 7] = ["MaxFeePerGas", "accessList", "accesslist", "chainId", "maxFeePerGas", "maxPriorityFeePerGas", "nonce"];
crate::verif_harness_nofmt! {
    #[kani::stub(serde_json::from_value, from_value_stub)]
    #[kani::unwind(10)]
    fn c06_kind_dispatch() {
        let present: [bool; 7] = kani::any();
        let mut map = JsonObject::new();
        let mut n = 0;
        let mut i = 0;
        while i < 7 {
            if present[i] {
                map.insert(KEYS[i].to_string(), serde_json::Value::Null);
                n += 1;
            }
            i += 1;
        }
        let got = Transaction::deserialize(serde_json::Value::Object(map));
        let expected = if present[4] || present[5] { 2 } else if present[1] { 1 } else { 0 };
        kani::cover!(expected == 2 && !present[5], "maxFeePerGas alone selects EIP-1559");
        kani::cover!(expected == 2 && !present[4] && present[1], "maxPriorityFeePerGas alone (with an access list) selects EIP-1559");
        kani::cover!(expected == 1, "access list without fee-market keys selects EIP-2930");
        kani::cover!(expected == 0 && present[0] && present[2], "near-miss keys select nothing");
        unsafe {
            assert!(FV_CALLS == 1, "exactly one per-kind deserialization");
            assert!(FV_KIND == expected, "wrong transaction kind selected for this set of keys");
            assert!(FV_OBJECT_LEN == n, "the per-kind deserializer is not handed the whole object");
        }
        assert!(got.is_err(), "an error of the per-kind deserializer was swallowed");
        core::mem::forget(got);
    }
}

// ------------------------------------------------------------------------------------------------
// Access-list STRUCTURE with the leaves as recorders: `rlp::bytes` logs what it is asked to encode, `rlp::list` logs,
// per call, the placeholders it is handed and returns a fresh placeholder. Number of entries (0..=2), number of
// storage keys per entry (0..=2 each), addresses and keys are symbolic. Specification:
// [[address, [key, ...]], ...] -- per entry one inner list of its keys, one two-item list (address, that list), and one
// outer list of the entries, everything in order.
const MAXCALLS: usize = 6;
static mut L2_CALLS: usize = 0;
static mut L2_N: [usize; MAXCALLS] = [0; MAXCALLS];
static mut L2_ITEMS: [[u8; 4]; MAXCALLS] = [[0; 4]; MAXCALLS];
static mut L2_ONE: [bool; MAXCALLS] = [true; MAXCALLS];
fn list2_stub(items: &[&[u8]]) -> Vec<u8> {
    unsafe {
        let k = L2_CALLS;
        assert!(k < MAXCALLS, "more lists than an access list of this shape has");
        assert!(items.len() <= 4, "more items in one list than the harness bound allows");
        L2_N[k] = items.len();
        let mut i = 0;
        while i < 4 {
            if i < items.len() {
                L2_ITEMS[k][i] = if items[i].len() > 0 { items[i][0] } else { 0 };
                if items[i].len() != 1 { L2_ONE[k] = false; }
            }
            i += 1;
        }
        L2_CALLS = k + 1;
        vec![0xe0 + k as u8]
    }
}
/// `rlp::iter` as a recorder with the same log as `list2_stub`: drives the iterator (so the closures that encode the
/// entries run), notes the placeholders it yields, returns a fresh placeholder. Its contract -- the list of the yielded
/// items in iteration order -- is decided in c07_iter_*.
fn iter2_stub<U, I>(items: I) -> Vec<u8>
where
    U: AsRef<[u8]>,
    I: IntoIterator<Item = U>,
{
    let mut firsts = [0u8; 4];
    let mut one = true;
    let mut n = 0;
    for item in items {
        let b = item.as_ref();
        assert!(n < 4, "more items in one list than the harness bound allows");
        firsts[n] = if b.len() > 0 { b[0] } else { 0 };
        if b.len() != 1 { one = false; }
        n += 1;
    }
    unsafe {
        let k = L2_CALLS;
        assert!(k < MAXCALLS, "more lists than an access list of this shape has");
        L2_N[k] = n;
        L2_ITEMS[k] = firsts;
        L2_ONE[k] = one;
        L2_CALLS = k + 1;
        vec![0xe0 + k as u8]
    }
}

fn check_alist_structure<const E: usize, const S0: usize, const S1: usize>() {
        // separate arrays, copied into the nested ones: comparing against a sub-array of a nested symbolic array
        // (`&slots[0][1]`) through 16-byte loads gave a spurious counterexample in CBMC 6.11 (per-byte comparisons held)
        let a0: [u8; 20] = kani::any();
        let a1: [u8; 20] = kani::any();
        let s00: [u8; 32] = kani::any();
        let s01: [u8; 32] = kani::any();
        let s10: [u8; 32] = kani::any();
        let s11: [u8; 32] = kani::any();
        let addrs: [&[u8; 20]; 2] = [&a0, &a1];
        let slots: [[&[u8; 32]; 2]; 2] = [[&s00, &s01], [&s10, &s11]];
        let entries: usize = E;
        let counts: [usize; 2] = [S0, S1];
        let mut v = Vec::with_capacity(2);
        let mut e = 0;
        while e < E {
            let mut sl = Vec::with_capacity(2);
            let mut k = 0;
            while k < counts[e] {
                sl.push(StorageSlot(*slots[e][k]));
                k += 1;
            }
            v.push((Address(*addrs[e]), sl));
            e += 1;
        }
        unsafe { LOG_N = 0; L2_CALLS = 0; }
        let out = AccessList(v).rlp_encode();
        kani::cover!(true, "reached");
        if !stubs_active() {
            // native replay: the real encoders ran; compare with the reference encoding of [[address, [key, ...]], ...]
            let mut all = Vec::new();
            for e in 0..E {
                let mut keys = Vec::new();
                for k in 0..counts[e] {
                    ref_string(slots[e][k], &mut keys);
                }
                let mut entry = Vec::new();
                ref_string(addrs[e], &mut entry);
                ref_list(&keys, &mut entry);
                ref_list(&entry, &mut all);
            }
            let mut expected = Vec::new();
            ref_list(&all, &mut expected);
            assert!(out == expected, "access list encoding differs from the reference encoding of [[address, [keys]], ...]");
            return;
        }
        unsafe {
            let mut leaf = 0; // next expected leaf-log index
            let mut call = 0; // next expected list call
            let mut entry_ph = [0u8; 2];
            let mut e = 0;
            while e < 2 {
                if e < entries {
                    // address leaf
                    assert!(LOG_KIND[leaf] == K_BYTES && LOG_LEN[leaf] == 20, "entry does not start with the 20-byte address");
                    let mut a32 = [0u8; 32];
                    copy_bytes(&mut a32, addrs[e]);
                    assert!(eq32(&LOG_VAL[leaf], &a32), "address differs / entries out of order");
                    let addr_ph = (leaf + 1) as u8;
                    leaf += 1;
                    // key leaves
                    let mut key_ph = [0u8; 2];
                    let mut k = 0;
                    while k < 2 {
                        if k < counts[e] {
                            assert!(LOG_KIND[leaf] == K_BYTES && LOG_LEN[leaf] == 32, "storage key is not a 32-byte string");
                            assert!(eq32(&LOG_VAL[leaf], slots[e][k]), "storage key differs / keys out of order (sorted? de-duplicated?)");
                            key_ph[k] = (leaf + 1) as u8;
                            leaf += 1;
                        }
                        k += 1;
                    }
                    // inner list of keys
                    assert!(L2_N[call] == counts[e] && L2_ONE[call], "keys of an entry form one list");
                    assert!(counts[e] < 1 || L2_ITEMS[call][0] == key_ph[0]);
                    assert!(counts[e] < 2 || L2_ITEMS[call][1] == key_ph[1]);
                    let inner_ph = 0xe0 + call as u8;
                    call += 1;
                    // entry = [address, keys]
                    assert!(L2_N[call] == 2 && L2_ONE[call], "an entry is a two-item list");
                    assert!(L2_ITEMS[call][0] == addr_ph && L2_ITEMS[call][1] == inner_ph, "entry is not [address, [keys]]");
                    entry_ph[e] = 0xe0 + call as u8;
                    call += 1;
                }
                e += 1;
            }
            assert!(LOG_N == leaf, "number of leaves encoded");
            assert!(L2_CALLS == call + 1, "number of lists built");
            assert!(L2_N[call] == entries && L2_ONE[call], "the access list is one list of its entries");
            assert!(entries < 1 || L2_ITEMS[call][0] == entry_ph[0]);
            assert!(entries < 2 || L2_ITEMS[call][1] == entry_ph[1]);
            assert!(out.len() == 1 && out[0] == 0xe0 + call as u8, "the outer list is returned");
        }
    }
macro_rules! alist_structure_harness {
    ($($name:ident = ($e:expr, $s0:expr, $s1:expr);)*) => {$(
        crate::verif_harness! {
            #[kani::stub(crate::transaction::rlp::bytes, bytes_stub)]
            #[kani::stub(crate::transaction::rlp::list, list2_stub)]
            #[kani::unwind(6)]
            fn $name() { check_alist_structure::<$e, $s0, $s1>() }
        }
    )*};
}
macro_rules! alist_iter_harness {
    ($($name:ident = ($e:expr, $s0:expr, $s1:expr);)*) => {$(
        crate::verif_harness! {
            #[kani::stub(crate::transaction::rlp::bytes, bytes_stub)]
            #[kani::stub(crate::transaction::rlp::list, list2_stub)]
            #[kani::stub(crate::transaction::rlp::iter, iter2_stub)]
            #[kani::unwind(6)]
            fn $name() { check_alist_structure::<$e, $s0, $s1>() }
        }
    )*};
}
alist_iter_harness! {
    c06i_alist_0_0_0 = (0, 0, 0); c06i_alist_1_0_0 = (1, 0, 0); c06i_alist_1_1_0 = (1, 1, 0); c06i_alist_1_2_0 = (1, 2, 0);
    c06i_alist_2_1_0 = (2, 1, 0); c06i_alist_2_0_2 = (2, 0, 2); c06i_alist_2_2_2 = (2, 2, 2);
}
alist_structure_harness! {
    c06a_alist_0_0_0 = (0, 0, 0); c06a_alist_1_0_0 = (1, 0, 0); c06a_alist_1_1_0 = (1, 1, 0); c06a_alist_1_2_0 = (1, 2, 0);
    c06a_alist_2_1_0 = (2, 1, 0); c06a_alist_2_0_2 = (2, 0, 2); c06a_alist_2_2_2 = (2, 2, 2);
}
