//! C06 / C11 / C07: Kani harnesses for the transaction encoders (spliced into src/transaction.rs).
//! Structure harnesses: the leaf encoders (`rlp::uint`, `rlp::bytes`, `AccessList::rlp_encode`) are
//! recorders that log what they are asked to encode and return a one-byte placeholder; their own
//! contracts are decided for all inputs in the C07 harnesses (assume-guarantee).
#![allow(static_mut_refs)]
use super::*;
use crate::__verif_common::*;
use crate::transaction::accesslist::{AccessList, StorageSlot};
use ethaddr::Address;
use ethnum::U256;

const K_UINT: u8 = 1;
const K_BYTES: u8 = 2;
const K_ALIST: u8 = 3;
const MAXLOG: usize = 26;
static mut LOG_KIND: [u8; MAXLOG] = [0; MAXLOG];
static mut LOG_VAL: [[u8; 32]; MAXLOG] = [[0; 32]; MAXLOG];
static mut LOG_LEN: [usize; MAXLOG] = [0; MAXLOG];
static mut LOG_N: usize = 0;

fn log_push(kind: u8, val: [u8; 32], len: usize) -> Vec<u8> {
    unsafe {
        let i = LOG_N;
        assert!(i < MAXLOG, "more fields encoded than any transaction type has");
        LOG_KIND[i] = kind;
        LOG_LEN[i] = len;
        LOG_VAL[i] = val;
        LOG_N = i + 1;
        vec![(i + 1) as u8] // placeholder: a single byte below 0x80, distinct per call
    }
}
/// first (up to) 32 bytes of a byte string, zero padded (no per-byte loop)
fn head32(bytes: &[u8]) -> [u8; 32] {
    let mut val = [0u8; 32];
    let n = if bytes.len() < 32 { bytes.len() } else { 32 };
    copy_bytes_sym::<2>(&mut val, &bytes[..n]);
    val
}
fn uint_stub(value: U256) -> Vec<u8> {
    log_push(K_UINT, value.to_be_bytes(), 32)
}
fn bytes_stub(bytes: &[u8]) -> Vec<u8> {
    log_push(K_BYTES, head32(bytes), bytes.len())
}
fn alist_stub(list: &AccessList) -> Vec<u8> {
    log_push(K_ALIST, [0; 32], list.0.len())
}

macro_rules! structure_harness {
    ($(#[$m:meta])* fn $name:ident() $body:block) => {
        crate::verif_harness! {
            #[kani::stub(crate::transaction::rlp::uint, uint_stub)]
            #[kani::stub(crate::transaction::rlp::bytes, bytes_stub)]
            #[kani::stub(crate::transaction::accesslist::AccessList::rlp_encode, alist_stub)]
            #[kani::stub(ethdigest::Digest::of, crate::__verif_common::digest_of_stub80)]
            $(#[$m])*
            fn $name() $body
        }
    };
}

/// What the specification expects one list item to be.
#[derive(Clone, Copy)]
struct Item {
    kind: u8,
    val: [u8; 32],
    len: usize,
}
fn u(v: U256) -> Item {
    Item { kind: K_UINT, val: v.to_be_bytes(), len: 32 }
}
fn b(bytes: &[u8]) -> Item {
    Item { kind: K_BYTES, val: head32(bytes), len: bytes.len() }
}
fn al(n: usize) -> Item {
    Item { kind: K_ALIST, val: [0; 32], len: n }
}

/// Checks the recorder log from `from` on against `items`, and `out` against
/// `type byte? || list header(count) || placeholders from+1..`.
fn expect_encoding(from: usize, items: &[Item], ty: Option<u8>, out: &[u8]) {
    unsafe {
        assert!(LOG_N == from + items.len(), "number of encoded fields");
        let mut i = 0;
        while i < items.len() {
            let l = from + i;
            assert!(LOG_KIND[l] == items[i].kind, "field kind (integer / byte string / access list)");
            assert!(LOG_LEN[l] == items[i].len, "field length");
            assert!(eq32(&LOG_VAL[l], &items[i].val), "field value or field order differs");
            i += 1;
        }
    }
    let skip = if let Some(t) = ty {
        assert!(out[0] == t, "transaction type byte");
        1
    } else {
        0
    };
    assert!(out.len() == skip + 1 + items.len(), "output length");
    assert!(out[skip] == 0xc0 + items.len() as u8, "list header");
    let mut i = 0;
    while i < items.len() {
        assert!(out[skip + 1 + i] == (from + i + 1) as u8, "fields are not emitted in order");
        i += 1;
    }
}

fn any_u256() -> U256 {
    let b: [u8; 32] = kani::any();
    U256::from_be_bytes(b)
}
fn any_to() -> Option<Address> {
    let present: bool = kani::any();
    let a: [u8; 20] = kani::any();
    if present {
        Some(Address(a))
    } else {
        None
    }
}
const R: [u8; 32] = [0x11; 32];
const S: [u8; 32] = [0x22; 32];
fn any_signature(signed: bool) -> (Option<crate::account::Signature>, u8) {
    let parity: u8 = kani::any();
    kani::assume(parity < 2);
    if signed {
        (
            Some(crate::account::Signature::from_parts(U256::from_be_bytes(R), U256::from_be_bytes(S), parity)),
            parity,
        )
    } else {
        (None, parity)
    }
}
fn to_item(to: &Option<Address>) -> Item {
    match to {
        Some(a) => b(&a.0),
        None => b(&[]),
    }
}

// ---------------------------------------------------------------------------------------- legacy
fn check_legacy(signed: bool, has_chain: bool) {
        let data: [u8; 3] = kani::any();
        let chain = any_u256();
        // known finding D7 / C11 quantifier: chain ids for which 35 + 2c + 1 fits 256 bits
        kani::assume(chain < (U256::MAX >> 1) - 18u128);
        let tx = LegacyTransaction {
            nonce: any_u256(),
            gas_price: any_u256(),
            gas: any_u256(),
            to: any_to(),
            value: any_u256(),
            data: data.to_vec(),
            chain_id: if has_chain { Some(chain) } else { None },
        };
        let (sig, parity) = any_signature(signed);
        unsafe { LOG_N = 0; }
        let out = tx.rlp_encode(sig);
        let head = [u(tx.nonce), u(tx.gas_price), u(tx.gas), to_item(&tx.to), u(tx.value), b(&data)];
        let mut items = [head[0]; 9];
        let mut n = 0;
        while n < 6 {
            items[n] = head[n];
            n += 1;
        }
        kani::cover!(parity == 1 && tx.to.is_some(), "odd parity, recipient present");
        kani::cover!(tx.to.is_none(), "contract creation");
        if sig.is_some() {
            // v = 35 + 2c + parity, or 27 + parity (Signature::v itself: harness c11_v)
            let v = match tx.chain_id {
                Some(c) => (c << 1u32) + U256::new(35 + parity as u128),
                None => U256::new(27 + parity as u128),
            };
            items[6] = u(v);
            items[7] = u(U256::from_be_bytes(R));
            items[8] = u(U256::from_be_bytes(S));
            n = 9;
        } else if has_chain {
            items[6] = u(chain);
            items[7] = u(U256::ZERO);
            items[8] = u(U256::ZERO);
            n = 9;
        }
        expect_encoding(0, &items[..n], None, &out);
}
structure_harness! { #[kani::unwind(15)] fn c06_legacy_unsigned_nochain() { check_legacy(false, false) } }
structure_harness! { #[kani::unwind(15)] fn c06_legacy_unsigned_chain() { check_legacy(false, true) } }
structure_harness! { #[kani::unwind(34)] fn c06_legacy_signed_nochain() { check_legacy(true, false) } }
structure_harness! { #[kani::unwind(34)] fn c06_legacy_signed_chain() { check_legacy(true, true) } }

// --------------------------------------------------------------------------------------- EIP-2930
fn check_eip2930(signed: bool, nal: usize) {
        let data: [u8; 3] = kani::any();
        let tx = Eip2930Transaction {
            chain_id: any_u256(),
            nonce: any_u256(),
            gas_price: any_u256(),
            gas: any_u256(),
            to: any_to(),
            value: any_u256(),
            data: data.to_vec(),
            access_list: AccessList(if nal == 1 { vec![(Address([7; 20]), vec![])] } else { vec![] }),
        };
        let (sig, parity) = any_signature(signed);
        unsafe { LOG_N = 0; }
        let out = tx.rlp_encode(sig);
        let head = [u(tx.chain_id), u(tx.nonce), u(tx.gas_price), u(tx.gas), to_item(&tx.to), u(tx.value),
                    b(&data), al(nal)];
        let mut items = [head[0]; 11];
        let mut n = 0;
        while n < 8 {
            items[n] = head[n];
            n += 1;
        }
        kani::cover!(parity == 1 && tx.to.is_some(), "odd parity, recipient present");
        kani::cover!(tx.to.is_none(), "contract creation");
        if sig.is_some() {
            items[8] = u(U256::new(parity as u128));
            items[9] = u(U256::from_be_bytes(R));
            items[10] = u(U256::from_be_bytes(S));
            n = 11;
        }
        expect_encoding(0, &items[..n], Some(0x01), &out);
}
structure_harness! { #[kani::unwind(15)] fn c06_eip2930_unsigned() { check_eip2930(false, 1) } }
structure_harness! { #[kani::unwind(34)] fn c06_eip2930_signed() { check_eip2930(true, 0) } }

// --------------------------------------------------------------------------------------- EIP-1559
fn check_eip1559(signed: bool, nal: usize) {
        let data: [u8; 3] = kani::any();
        let tx = Eip1559Transaction {
            chain_id: any_u256(),
            nonce: any_u256(),
            max_priority_fee_per_gas: any_u256(),
            max_fee_per_gas: any_u256(),
            gas: any_u256(),
            to: any_to(),
            value: any_u256(),
            data: data.to_vec(),
            access_list: AccessList(if nal == 1 { vec![(Address([7; 20]), vec![])] } else { vec![] }),
        };
        let (sig, parity) = any_signature(signed);
        unsafe { LOG_N = 0; }
        let out = tx.rlp_encode(sig);
        let head = [u(tx.chain_id), u(tx.nonce), u(tx.max_priority_fee_per_gas), u(tx.max_fee_per_gas), u(tx.gas),
                    to_item(&tx.to), u(tx.value), b(&data), al(nal)];
        let mut items = [head[0]; 12];
        let mut n = 0;
        while n < 9 {
            items[n] = head[n];
            n += 1;
        }
        kani::cover!(parity == 1 && tx.to.is_some(), "odd parity, recipient present");
        kani::cover!(tx.to.is_none(), "contract creation");
        if sig.is_some() {
            items[9] = u(U256::new(parity as u128));
            items[10] = u(U256::from_be_bytes(R));
            items[11] = u(U256::from_be_bytes(S));
            n = 12;
        }
        expect_encoding(0, &items[..n], Some(0x02), &out);
}
structure_harness! { #[kani::unwind(15)] fn c06_eip1559_unsigned() { check_eip1559(false, 1) } }
structure_harness! { #[kani::unwind(34)] fn c06_eip1559_signed() { check_eip1559(true, 0) } }

// ---------------------------------------------------------------- Transaction::{signing_message, encode}
// The digest that is signed is Keccak-256 of exactly the unsigned payload; encode() is the payload
// with the signature; the enum dispatches to the matching encoder.
fn check_signing_message(kind: u8, has_chain: bool) {
        let data: [u8; 2] = kani::any();
        let chain = any_u256();
        kani::assume(chain < (U256::MAX >> 1) - 18u128);
        let tx = match kind {
            0 => Transaction::Legacy(LegacyTransaction {
                nonce: any_u256(), gas_price: any_u256(), gas: any_u256(), to: any_to(), value: any_u256(),
                data: data.to_vec(), chain_id: if has_chain { Some(chain) } else { None },
            }),
            1 => Transaction::Eip2930(Eip2930Transaction {
                chain_id: chain, nonce: any_u256(), gas_price: any_u256(), gas: any_u256(), to: any_to(),
                value: any_u256(), data: data.to_vec(), access_list: AccessList(vec![]),
            }),
            _ => Transaction::Eip1559(Eip1559Transaction {
                chain_id: chain, nonce: any_u256(), max_priority_fee_per_gas: any_u256(), max_fee_per_gas: any_u256(),
                gas: any_u256(), to: any_to(), value: any_u256(), data: data.to_vec(), access_list: AccessList(vec![]),
            }),
        };
        unsafe { LOG_N = 0; }
        // reference: the per-type encoder, already decided by the three harnesses above
        let unsigned = match &tx {
            Transaction::Legacy(t) => t.rlp_encode(None),
            Transaction::Eip2930(t) => t.rlp_encode(None),
            Transaction::Eip1559(t) => t.rlp_encode(None),
        };
        let fields = unsafe { LOG_N };
        let digest = tx.signing_message();
        kani::cover!(true, "reached");
        if stubs_active() {
            assert!(digest_calls() == 1, "exactly one Keccak invocation");
            // the second encoding logged the same number of fields, so placeholders are shifted by `fields`
            let mut pre = [0u8; 16];
            let mut i = 0;
            let skip = if kind == 0 { 0 } else { 1 };
            while i < unsigned.len() {
                pre[i] = if i > skip { unsigned[i] + fields as u8 } else { unsigned[i] };
                i += 1;
            }
            digest_expect80(0, &pre[..unsigned.len()], &digest.0);
            // and the fields hashed are the same values in the same order
            unsafe {
                assert!(LOG_N == 2 * fields);
                let mut i = 0;
                while i < fields {
                    assert!(LOG_KIND[i] == LOG_KIND[fields + i] && LOG_LEN[i] == LOG_LEN[fields + i]);
                    assert!(eq32(&LOG_VAL[i], &LOG_VAL[fields + i]), "signed payload differs from the unsigned encoding");
                    i += 1;
                }
            }
        } else {
            assert!(digest == Digest::of(&unsigned), "signing digest is not Keccak-256 of the unsigned payload");
        }
}
structure_harness! { #[kani::unwind(15)] fn c06_signing_message_legacy_nochain() { check_signing_message(0, false) } }
structure_harness! { #[kani::unwind(15)] fn c06_signing_message_legacy_chain() { check_signing_message(0, true) } }
structure_harness! { #[kani::unwind(15)] fn c06_signing_message_eip2930() { check_signing_message(1, true) } }
structure_harness! { #[kani::unwind(15)] fn c06_signing_message_eip1559() { check_signing_message(2, true) } }

// ---------------------------------------------------------------------------------- access list
// Real leaf encoders; one query per shape, addresses and slots symbolic.
fn spec_header(len: usize, list: bool, out: &mut [u8; 256], at: usize) -> usize {
    let base: u8 = if list { 0xc0 } else { 0x80 };
    if len < 56 {
        out[at] = base + len as u8;
        at + 1
    } else if len < 256 {
        out[at] = base + 56;
        out[at + 1] = len as u8;
        at + 2
    } else {
        out[at] = base + 57;
        out[at + 1] = (len >> 8) as u8;
        out[at + 2] = len as u8;
        at + 3
    }
}
fn header_size(len: usize) -> usize {
    if len < 56 { 1 } else if len < 256 { 2 } else { 3 }
}

fn check_access_list<const E: usize, const S0: usize, const S1: usize>() {
    let addrs: [[u8; 20]; 2] = kani::any();
    let slots: [[[u8; 32]; 2]; 2] = kani::any();
    let counts = [S0, S1];
    let mut v = Vec::new();
    let mut e = 0;
    while e < E {
        let mut sl = Vec::new();
        let mut k = 0;
        while k < counts[e] {
            sl.push(StorageSlot(slots[e][k]));
            k += 1;
        }
        v.push((Address(addrs[e]), sl));
        e += 1;
    }
    let out = AccessList(v).rlp_encode();
    kani::cover!(true, "reached");
    // expected: [[address, [slot, ...]], ...]
    let mut exp = [0u8; 256];
    let mut entry_len = [0usize; 2];
    let mut total = 0;
    let mut e = 0;
    while e < E {
        let sl = 33 * counts[e];
        entry_len[e] = 21 + header_size(sl) + sl;
        total += header_size(entry_len[e]) + entry_len[e];
        e += 1;
    }
    let mut at = spec_header(total, true, &mut exp, 0);
    let mut e = 0;
    while e < E {
        at = spec_header(entry_len[e], true, &mut exp, at);
        exp[at] = 0x94;
        at += 1;
        copy_bytes(&mut exp[at..], &addrs[e]);
        at += 20;
        at = spec_header(33 * counts[e], true, &mut exp, at);
        let mut k = 0;
        while k < counts[e] {
            exp[at] = 0xa0;
            at += 1;
            copy_bytes(&mut exp[at..], &slots[e][k]);
            at += 32;
            k += 1;
        }
        e += 1;
    }
    assert!(out.len() == at, "access list encoding length");
    assert!(bytes_eq(&out, &exp[..at]), "access list encoding differs from [[address, [slots]], ...]");
}
macro_rules! alist_harness {
    ($($name:ident = ($e:expr, $s0:expr, $s1:expr), $u:expr;)*) => {$(
        crate::verif_harness! { #[kani::unwind($u)] fn $name() { check_access_list::<$e, $s0, $s1>() } }
    )*};
}
alist_harness! {
    c06_alist_empty = (0, 0, 0), 4;
    c06_alist_1_0 = (1, 0, 0), 4;
    c06_alist_1_1 = (1, 1, 0), 6;
    c06_alist_1_2 = (1, 2, 0), 8;
    c06_alist_2_1_0 = (2, 1, 0), 8;
    c06_alist_2_2_2 = (2, 2, 2), 14;
}
