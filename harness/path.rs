//! C14 / C17: Kani harnesses for `hdk::path` (spliced into src/hdk/path.rs).
use super::*;
#[allow(unused_imports)]
use crate::__verif_common::*;

const LIMIT: u64 = 1 << 31;

/// Specification of one path component over ASCII text, as the property states it:
/// decimal digits, optional trailing apostrophe, value below 2^31.
/// Returns None for "don't care" spellings the property is silent about
/// (a leading '+', which `u32::from_str` accepts, and redundant leading zeros).
fn spec_component(s: &[u8]) -> Option<Result<(bool, u32), ()>> {
    let (digits, hardened) = match s.split_last() {
        Some((b'\'', rest)) => (rest, true),
        _ => (s, false),
    };
    if let Some(b'+') = digits.first() {
        return None;
    }
    if digits.len() > 1 && digits[0] == b'0' {
        return None;
    }
    if digits.is_empty() {
        return Some(Err(()));
    }
    let mut value: u64 = 0;
    let mut i = 0;
    while i < digits.len() {
        let d = digits[i];
        if !d.is_ascii_digit() {
            return Some(Err(()));
        }
        value = value * 10 + (d - b'0') as u64; // <= 12 digits: no overflow in u64
        i += 1;
    }
    if value >= LIMIT {
        return Some(Err(()));
    }
    Some(Ok((hardened, value as u32)))
}

fn same(c: &Component, hardened: bool, value: u32) -> bool {
    match *c {
        Component::Hardened(v) => hardened && v == value,
        Component::Normal(v) => !hardened && v == value,
    }
}

// Every ASCII string of up to 12 bytes (covers all canonical spellings: "2147483647'" is 11 bytes,
// and the 2^31 / 2^32 boundaries "2147483648", "4294967295", "4294967296").
crate::verif_harness! {
    #[kani::unwind(14)]
    fn c14_component() {
        let buf: [u8; 12] = kani::any();
        let n: usize = kani::any();
        kani::assume(n <= 12);
        let mut i = 0;
        while i < 12 {
            kani::assume(buf[i] < 0x80);
            i += 1;
        }
        let s = unsafe { core::str::from_utf8_unchecked(&buf[..n]) };
        let got = Component::from_str(s);
        let spec = spec_component(&buf[..n]);
        kani::cover!(matches!(spec, Some(Ok((true, _)))), "hardened accepted");
        kani::cover!(matches!(spec, Some(Ok((false, v))) if v == (LIMIT - 1) as u32), "2^31-1 accepted");
        kani::cover!(matches!(spec, Some(Err(()))) && n == 10, "ten characters rejected");
        kani::cover!(spec.is_none(), "don't-care spelling");
        match spec {
            Some(Ok((hardened, value))) => match &got {
                Ok(c) => assert!(same(c, hardened, value), "component parsed to a different index"),
                Err(_) => panic!("canonical component rejected"),
            },
            Some(Err(())) => assert!(got.is_err(), "non-standard component accepted"),
            None => {
                // don't care about Ok/Err, but if accepted the index must still be a legal one
                if let Ok(c) = &got {
                    let v = match *c { Component::Hardened(v) | Component::Normal(v) => v };
                    assert!((v as u64) < LIMIT, "index of 2^31 or more accepted");
                }
            }
        }
        core::mem::forget(got);
    }
}

/// Specification of a whole path over ASCII text. Returns (expect_ok, dont_care, ncomp, comps).
fn spec_path(buf: &[u8]) -> (bool, bool, usize, [(bool, u32); 6]) {
    let n = buf.len();
    let mut expect_ok = n >= 2 && buf[0] == b'm' && buf[1] == b'/';
    let mut dont_care = false;
    let mut comps: [(bool, u32); 6] = [(false, 0); 6];
    let mut ncomp = 0;
    if expect_ok {
        let mut start = 2;
        let mut i = 2;
        while i <= n {
            if i == n || buf[i] == b'/' {
                match spec_component(&buf[start..i]) {
                    Some(Ok(c)) => {
                        if ncomp < 6 {
                            comps[ncomp] = c;
                        }
                        ncomp += 1;
                    }
                    Some(Err(())) => expect_ok = false,
                    None => dont_care = true,
                }
                start = i + 1;
            }
            i += 1;
        }
    }
    (expect_ok, dont_care, ncomp, comps)
}

fn check_path_against_spec(buf: &[u8]) -> (bool, bool, usize) {
    let s = unsafe { core::str::from_utf8_unchecked(buf) };
    let got = Path::from_str(s);
    let (expect_ok, dont_care, ncomp, comps) = spec_path(buf);
    if !expect_ok {
        assert!(got.is_err(), "malformed path accepted");
    } else if !dont_care {
        match &got {
            Ok(p) => {
                assert!(p.components.len() == ncomp, "component count");
                let mut k = 0;
                while k < ncomp && k < 6 {
                    assert!(same(&p.components[k], comps[k].0, comps[k].1), "component differs");
                    k += 1;
                }
            }
            Err(_) => panic!("well-formed path rejected"),
        }
    }
    core::mem::forget(got);
    (expect_ok, dont_care, ncomp)
}

// Whole paths, every ASCII string of exactly N bytes (N concrete per query): missing root, empty
// components, trailing separators, order of components.
fn check_path_ascii<const N: usize>() {
    let buf: [u8; N] = kani::any();
    let mut i = 0;
    while i < N {
        kani::assume(buf[i] < 0x80);
        i += 1;
    }
    let (ok, dc, ncomp) = check_path_against_spec(&buf);
    kani::cover!(N < 3 || (ok && !dc && ncomp >= 1), "accepted");
    kani::cover!(!ok, "rejected");
    kani::cover!(N < 2 || (buf[0] == b'm' && buf[1] == b'/' && !ok), "rejected after a valid root");
}
macro_rules! path_ascii {
    ($($name:ident = $n:expr, $u:expr;)*) => {$(
        crate::verif_harness_memchr! {
            #[kani::unwind($u)]
            fn $name() { check_path_ascii::<$n>() }
        }
    )*};
}
path_ascii! {
    c14_path_ascii_0 = 0, 3; c14_path_ascii_1 = 1, 3; c14_path_ascii_2 = 2, 4; c14_path_ascii_3 = 3, 4;
    c14_path_ascii_4 = 4, 5; c14_path_ascii_5 = 5, 6; c14_path_ascii_6 = 6, 7; c14_path_ascii_7 = 7, 8;
}

// K components of two symbolic ASCII bytes each (no '/' inside a component, so the shape is fixed):
// "m/ab/cd/..": order, count, per-component acceptance for depths up to 5.
fn check_path_shape<const K: usize, const N: usize>() {
    let mut buf = [b'/'; N]; // N = 1 + 3K
    buf[0] = b'm';
    let mut k = 0;
    while k < K {
        let a: u8 = kani::any();
        let b: u8 = kani::any();
        kani::assume(a < 0x80 && b < 0x80 && a != b'/' && b != b'/');
        buf[2 + 3 * k] = a;
        buf[3 + 3 * k] = b;
        k += 1;
    }
    let (ok, dc, ncomp) = check_path_against_spec(&buf);
    kani::cover!(ok && !dc && ncomp == K, "accepted with K components");
    kani::cover!(!ok, "rejected");
}
macro_rules! path_shape {
    ($($name:ident = $k:expr, $n:expr, $u:expr;)*) => {$(
        crate::verif_harness_memchr! {
            #[kani::unwind($u)]
            fn $name() { check_path_shape::<$k, $n>() }
        }
    )*};
}
path_shape! {
    c14_path_shape_1 = 1, 4, 8; c14_path_shape_2 = 2, 7, 11; c14_path_shape_3 = 3, 10, 14;
    c14_path_shape_5 = 5, 16, 20;
}

// The canonical text of the default account path m/44'/60'/0'/0/i parses to exactly
// [44', 60', 0', 0, i] for every i below 2^31 and is refused from 2^31 on. The index digits are
// symbolic (1..=10 digits, no redundant leading zero); the text is assembled by the harness.
crate::verif_harness_memchr! {
    #[kani::unwind(28)]
    fn c14_default_path_text() {
        let digits: [u8; 10] = kani::any();
        let nd: usize = kani::any();
        kani::assume(nd >= 1 && nd <= 10);
        let mut text = [0u8; 25];
        text[..15].copy_from_slice(b"m/44'/60'/0'/0/");
        let mut value: u64 = 0;
        let mut k = 0;
        while k < 10 {
            if k < nd {
                kani::assume(digits[k].is_ascii_digit());
                text[15 + k] = digits[k];
                value = value * 10 + (digits[k] - b'0') as u64;
            }
            k += 1;
        }
        kani::assume(nd == 1 || digits[0] != b'0');
        let s = unsafe { core::str::from_utf8_unchecked(&text[..15 + nd]) };
        let got = Path::from_str(s);
        kani::cover!(value < LIMIT && nd == 10, "ten digit index accepted");
        kani::cover!(value >= LIMIT, "index of 2^31 or more");
        kani::cover!(value > u32::MAX as u64, "index beyond 2^32");
        kani::cover!(value == 0, "zero");
        if value < LIMIT {
            match &got {
                Ok(p) => {
                    assert!(p.components.len() == 5);
                    assert!(same(&p.components[0], true, 44));
                    assert!(same(&p.components[1], true, 60));
                    assert!(same(&p.components[2], true, 0));
                    assert!(same(&p.components[3], false, 0));
                    assert!(same(&p.components[4], false, value as u32));
                }
                Err(_) => panic!("default account path rejected"),
            }
        } else {
            assert!(got.is_err(), "account index of 2^31 or more accepted");
        }
        core::mem::forget(got);
    }
}



/// Builds a path from components without going through the text parser (used by the C03 harnesses).
pub fn make_path(components: Vec<Component>) -> Path {
    Path { components }
}
