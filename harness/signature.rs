//! C15 / C11 / C06 / C17: Kani harnesses for `account::signature` (spliced into
//! src/account/signature.rs).
use super::*;
#[allow(unused_imports)]
use crate::__verif_common::*;

/// 0 < x < n on big-endian bytes (loop-free, see common.rs).
fn scalar_in_range(x: &[u8]) -> bool {
    let mut a = [0u8; 32];
    a.copy_from_slice(&x[..32]);
    scalar_in_range32(&a)
}

fn hex_val(c: u8) -> Option<u8> {
    match c {
        b'0'..=b'9' => Some(c - b'0'),
        b'a'..=b'f' => Some(c - b'a' + 10),
        b'A'..=b'F' => Some(c - b'A' + 10),
        _ => None,
    }
}

/// Specification of the signature text: optional `0x`, then exactly 130 hex digits r || s || v with
/// v in {1b, 1c} and 0 < r, s < n. Returns Some((r, s, parity)) iff the text denotes a signature.
fn spec_signature(text: &[u8]) -> Option<([u8; 32], [u8; 32], u8)> {
    let body = if text.len() >= 2 && text[0] == b'0' && text[1] == b'x' { &text[2..] } else { text };
    if body.len() != 130 {
        return None;
    }
    let mut raw = [0u8; 65];
    let mut i = 0;
    while i < 65 {
        let hi = hex_val(body[2 * i])?;
        let lo = hex_val(body[2 * i + 1])?;
        raw[i] = (hi << 4) | lo;
        i += 1;
    }
    let parity = match raw[64] {
        27 => 0,
        28 => 1,
        _ => return None,
    };
    if !scalar_in_range(&raw[0..32]) || !scalar_in_range(&raw[32..64]) {
        return None;
    }
    let mut r = [0u8; 32];
    let mut s = [0u8; 32];
    r.copy_from_slice(&raw[0..32]);
    s.copy_from_slice(&raw[32..64]);
    Some((r, s, parity))
}

fn check_parse(text: &[u8]) -> bool {
    let s = unsafe { core::str::from_utf8_unchecked(text) };
    let got = Signature::from_str(s);
    let spec = spec_signature(text);
    match (&got, &spec) {
        (Ok(sig), Some((r, s, parity))) => {
            assert!(sig.r() == U256::from_be_bytes(*r), "r differs from the text");
            assert!(sig.s() == U256::from_be_bytes(*s), "s differs from the text");
            assert!(sig.y_parity() == U256::new(*parity as u128), "parity differs from v");
            assert!(sig.v(None) == U256::new(27 + *parity as u128), "v(None) is not 27 + parity");
        }
        (Err(_), None) => {}
        (Ok(_), None) => panic!("text that does not denote a signature was accepted"),
        (Err(_), Some(_)) => panic!("well-formed signature text was rejected"),
    }
    core::mem::forget(got);
    spec.is_some()
}

// Every ASCII string of exactly 130 bytes (the unprefixed form).
crate::verif_harness! {
    #[kani::unwind(133)]
    fn c15_parse_130() {
        let text: [u8; 130] = kani::any();
        let mut i = 0;
        while i < 130 {
            kani::assume(text[i] < 0x80);
            i += 1;
        }
        let ok = check_parse(&text);
        kani::cover!(ok, "accepted");
        kani::cover!(!ok, "rejected");
        kani::cover!(ok && text[0] == b'F' && text[1] == b'f', "mixed case accepted");
    }
}

// Every ASCII string of exactly 132 bytes (the form Display prints: 0x + 130 digits).
crate::verif_harness! {
    #[kani::unwind(135)]
    fn c15_parse_132() {
        let text: [u8; 132] = kani::any();
        let mut i = 0;
        while i < 132 {
            kani::assume(text[i] < 0x80);
            i += 1;
        }
        let ok = check_parse(&text);
        kani::cover!(ok, "accepted");
        kani::cover!(!ok && text[0] == b'0' && text[1] == b'x', "prefixed but rejected");
        kani::cover!(!ok && text[1] != b'x', "unprefixed 132 characters rejected");
    }
}

// Every other length 0..=140: always an error, never a panic.
crate::verif_harness! {
    #[kani::unwind(143)]
    fn c15_parse_other_lengths() {
        let text: [u8; 140] = kani::any();
        let n: usize = kani::any();
        kani::assume(n <= 140 && n != 130 && n != 132);
        let mut i = 0;
        while i < 140 {
            kani::assume(text[i] < 0x80);
            i += 1;
        }
        let ok = check_parse(&text[..n]);
        kani::cover!(n == 0, "empty");
        kani::cover!(n == 131, "131");
        kani::cover!(n == 140, "140");
        kani::cover!(n == 128, "128");
        assert!(!ok);
    }
}

// ------------------------------------------------------------------------------------- accessors
// r(), s(), y_parity() return the scalars / parity the signature was built from, for every in-range
// (r, s) and every recovery id.
crate::verif_harness! {
    #[kani::unwind(35)]
    fn c06_sig_accessors() {
        let r: [u8; 32] = kani::any();
        let s: [u8; 32] = kani::any();
        let id: u8 = kani::any();
        kani::assume(id < 4);
        kani::assume(scalar_in_range(&r) && scalar_in_range(&s));
        let sig = Signature::from_parts(U256::from_be_bytes(r), U256::from_be_bytes(s), id);
        kani::cover!(id == 1, "odd parity");
        kani::cover!(id == 2, "recovery id with the x-reduced bit");
        assert!(sig.r() == U256::from_be_bytes(r));
        assert!(sig.s() == U256::from_be_bytes(s));
        assert!(sig.y_parity() == U256::new((id & 1) as u128));
    }
}

// ------------------------------------------------------------------------------------- v (C11)
/// big-endian 2*c + add, returns None on overflow of 256 bits
fn spec_v(c: &[u8; 32], add: u8) -> Option<[u8; 32]> {
    let mut out = [0u8; 32];
    let mut carry: u16 = add as u16;
    let mut i = 32;
    while i > 0 {
        i -= 1;
        let t = (c[i] as u16) * 2 + carry;
        out[i] = (t & 0xff) as u8;
        carry = t >> 8;
    }
    if carry != 0 {
        None
    } else {
        Some(out)
    }
}

fn any_sig(parity: u8) -> Signature {
    // r and s are irrelevant to v(); concrete in-range scalars keep the query small
    Signature::from_parts(U256::new(1), U256::new(2), parity)
}

// v = 35 + 2c + parity exactly (as integers) for every chain id for which that fits 256 bits;
// 27 + parity without a chain id.
crate::verif_harness! {
    #[kani::unwind(35)]
    fn c11_v() {
        let c: [u8; 32] = kani::any();
        let parity: u8 = kani::any();
        kani::assume(parity < 2);
        let has_chain: bool = kani::any();
        let sig = any_sig(parity);
        if !has_chain {
            kani::cover!(parity == 1, "no chain id, odd parity");
            assert!(sig.v(None) == U256::new(27 + parity as u128));
            return;
        }
        let spec = spec_v(&c, 35 + parity);
        if crate::__verif_kf::KF_D7 {
            // known finding D7: 35 + 2c + parity does not fit 256 bits -> v() overflows (see twin)
            kani::assume(spec.is_some());
        }
        kani::cover!(spec.is_some() && c[0] == 0x7f && c[31] == 0xee, "largest chain ids");
        kani::cover!(spec.is_some() && parity == 1 && c[31] == 1, "odd parity with chain id");
        let v = sig.v(Some(U256::from_be_bytes(c)));
        match spec {
            Some(expected) => assert!(v == U256::from_be_bytes(expected), "v is not 35 + 2c + parity"),
            None => panic!("v() returned although 35 + 2c + parity does not fit 256 bits"),
        }
    }
}

// Twin for known finding D7: restricted to the overflow region; expected to FAIL while the defect
// is present (checked-arithmetic panic in dev builds, wrap-around in release builds).
crate::verif_harness! {
    #[kani::unwind(35)]
    fn c11_v_kf_d7() {
        let c: [u8; 32] = kani::any();
        let parity: u8 = kani::any();
        kani::assume(parity < 2);
        let spec = spec_v(&c, 35 + parity);
        kani::assume(spec.is_none());
        kani::cover!(true, "overflow region reachable");
        let sig = any_sig(parity);
        let v = sig.v(Some(U256::from_be_bytes(c)));
        // reaching this point without a panic means the value wrapped around
        let _ = v;
        panic!("v() returned a wrapped value for a chain id with 35 + 2c + parity >= 2^256");
    }
}

// ------------------------------------------------------------------------------------------------
// The text the property defines -- [0x] + 64 hex digits of r + 64 of s + two of v = 27 + parity,
// rendered by the harness from symbolic in-range (r, s), parity, digit case and prefix choice --
// parses back to an equal signature. (Cheaper than all ASCII strings: 65 symbolic bytes, every
// character a hex digit; covers e.g. scalars with leading zero digits.)
crate::verif_harness! {
    #[kani::unwind(67)]
    fn c15_spec_text() {
        let r: [u8; 32] = kani::any();
        let s: [u8; 32] = kani::any();
        let parity: u8 = kani::any();
        let prefixed: bool = kani::any();
        let upper: bool = kani::any();
        kani::assume(parity < 2);
        kani::assume(scalar_in_range32(&r) && scalar_in_range32(&s));
        let alphabet: &[u8; 16] = if upper { b"0123456789ABCDEF" } else { b"0123456789abcdef" };
        let mut text = [0u8; 132];
        text[0] = b'0';
        text[1] = b'x';
        let mut i = 0;
        while i < 32 {
            text[2 + 2 * i] = alphabet[(r[i] >> 4) as usize];
            text[3 + 2 * i] = alphabet[(r[i] & 15) as usize];
            text[66 + 2 * i] = alphabet[(s[i] >> 4) as usize];
            text[67 + 2 * i] = alphabet[(s[i] & 15) as usize];
            i += 1;
        }
        text[130] = b'1';
        text[131] = if parity == 0 { alphabet[11] } else { alphabet[12] };
        let t = if prefixed { &text[..] } else { &text[2..] };
        let st = unsafe { core::str::from_utf8_unchecked(t) };
        let got = Signature::from_str(st);
        kani::cover!(prefixed && r[0] == 0 && r[1] < 16, "r with leading zero digits, prefixed");
        kani::cover!(!prefixed && upper && parity == 1, "unprefixed upper case odd parity");
        kani::cover!(s[0] == 0 && s[1] == 0, "small s");
        match &got {
            Ok(sig) => {
                assert!(sig.r() == U256::from_be_bytes(r), "r differs from the text");
                assert!(sig.s() == U256::from_be_bytes(s), "s differs from the text");
                assert!(sig.y_parity() == U256::new(parity as u128), "parity differs from v");
            }
            Err(_) => panic!("the signature text defined by the property was rejected"),
        }
        core::mem::forget(got);
    }
}
