//! C03 / C17: Kani harnesses for `hdk::derive` (spliced into src/hdk.rs).
//!
//! HMAC-SHA512 is made an uninterpreted function by replacing the SHA-512 compression function with
//! a recorder: every 128-byte block that is hashed is logged and the new chaining state is a fresh
//! symbolic value. An HMAC over a short message is four compression calls (ipad block, opad block,
//! padded message, padded inner digest); the harness reads the HMAC key off the ipad block, the
//! message off the third block, and takes the fourth output as the HMAC result. Scalar
//! multiplication is a recorder as in C04.
#![allow(static_mut_refs)]
use super::*;
use crate::__verif_common::*;
use crate::hdk::path::__verif::make_path;

const MAXC: usize = 16;
static mut CB_N: usize = 0;
static mut CB_BLOCK: [[u8; 128]; MAXC] = [[0; 128]; MAXC];
static mut CB_OUT: [[u64; 8]; MAXC] = [[0; 8]; MAXC];

type Block512 = hmac::digest::generic_array::GenericArray<u8, hmac::digest::typenum::U128>;
fn compress512_stub(state: &mut [u64; 8], blocks: &[Block512]) {
    let mut b = 0;
    while b < blocks.len() {
        unsafe {
            let i = CB_N;
            assert!(i < MAXC, "more SHA-512 blocks than the specification hashes");
            CB_BLOCK[i].copy_from_slice(&blocks[b][..]);
            let out: [u64; 8] = kani::any();
            CB_OUT[i] = out;
            *state = out;
            CB_N = i + 1;
        }
        b += 1;
    }
}

static mut MUL_SCALAR: [u8; 32] = [0; 32];
static mut MUL_CALLS: usize = 0;
fn mul_stub(_x: &k256::ProjectivePoint, k: &k256::Scalar) -> k256::ProjectivePoint {
    unsafe {
        MUL_CALLS += 1;
        let b = k.to_bytes();
        MUL_SCALAR.copy_from_slice(&b[..]);
    }
    k256::ProjectivePoint::GENERATOR
}
fn to_affine_stub(_p: &k256::ProjectivePoint) -> k256::AffinePoint {
    k256::AffinePoint::GENERATOR
}

/// compressed SEC1 encoding of the generator (what the point-multiplication stub yields)
const G_COMPRESSED: [u8; 33] = [
    0x02, 0x79, 0xbe, 0x66, 0x7e, 0xf9, 0xdc, 0xbb, 0xac, 0x55, 0xa0, 0x62, 0x95, 0xce, 0x87, 0x0b, 0x07,
    0x02, 0x9b, 0xfc, 0xdb, 0x2d, 0xce, 0x28, 0xd9, 0x59, 0xf2, 0x81, 0x5b, 0x16, 0xf8, 0x17, 0x98,
];

fn is_zero(x: &[u8; 32]) -> bool {
    is_zero32(x)
}
fn below_order(x: &[u8; 32]) -> bool {
    lt32(x, &SECP256K1_ORDER)
}
fn halves(v: &[u8; 32]) -> (u128, u128) {
    (
        u128::from_be_bytes([v[0], v[1], v[2], v[3], v[4], v[5], v[6], v[7], v[8], v[9], v[10], v[11], v[12], v[13], v[14], v[15]]),
        u128::from_be_bytes([v[16], v[17], v[18], v[19], v[20], v[21], v[22], v[23], v[24], v[25], v[26], v[27], v[28], v[29], v[30], v[31]]),
    )
}
/// (a + b) mod n for a, b < n, on 128-bit halves (no loop)
fn add_mod_n(a: &[u8; 32], b: &[u8; 32]) -> [u8; 32] {
    let (ah, al) = halves(a);
    let (bh, bl) = halves(b);
    let (nh, nl) = halves(&SECP256K1_ORDER);
    let (sl, c1) = al.overflowing_add(bl);
    let (sh0, c2) = ah.overflowing_add(bh);
    let (sh, c3) = sh0.overflowing_add(c1 as u128);
    let carry = c2 || c3;
    let ge_n = sh > nh || (sh == nh && sl >= nl);
    let (rh, rl) = if carry || ge_n {
        // the true sum is < 2n: one subtraction suffices (wrap-around of the 257th bit intended)
        let (dl, b1) = sl.overflowing_sub(nl);
        (sh.wrapping_sub(nh).wrapping_sub(b1 as u128), dl)
    } else {
        (sh, sl)
    };
    let mut out = [0u8; 32];
    out[..16].copy_from_slice(&rh.to_be_bytes());
    out[16..].copy_from_slice(&rl.to_be_bytes());
    out
}

/// Checks that compression calls `first..first+4` are an HMAC-SHA512 keyed with `key` (<= 128 bytes)
/// over `msg` (<= 111 bytes) and returns the HMAC output.
fn expect_hmac(first: usize, key: &[u8], msg: &[u8]) -> [u8; 64] {
    unsafe {
        assert!(CB_N >= first + 4, "an HMAC the specification performs is missing");
        // first block: key padded with zeros, xor 0x36
        let mut kb = [0x36u8; 128];
        let mut k = 0;
        while k < key.len() {
            kb[k] = key[k] ^ 0x36;
            k += 1;
        }
        assert!(bytes_eq(&CB_BLOCK[first], &kb), "HMAC key differs");
        // third block: message || 0x80 || zeros || 128-bit big-endian bit length of (128 + |msg|) bytes
        let bits = (128 + msg.len()) * 8;
        let mut mb = [0u8; 128];
        let mut k = 0;
        while k < msg.len() {
            mb[k] = msg[k];
            k += 1;
        }
        mb[msg.len()] = 0x80;
        mb[126] = (bits >> 8) as u8;
        mb[127] = bits as u8;
        assert!(bytes_eq(&CB_BLOCK[first + 2], &mb), "HMAC message differs");
        let mut out = [0u8; 64];
        let mut w = 0;
        while w < 8 {
            out[8 * w..8 * w + 8].copy_from_slice(&CB_OUT[first + 3][w].to_be_bytes());
            w += 1;
        }
        out
    }
}

macro_rules! hdk_harness {
    ($(#[$m:meta])* fn $name:ident() $body:block) => {
        crate::verif_harness! {
            #[kani::stub(sha2::sha512::compress512, compress512_stub)]
            #[kani::stub(k256::arithmetic::mul::mul, mul_stub)]
            #[kani::stub(k256::ProjectivePoint::to_affine, to_affine_stub)]
            $(#[$m])*
            fn $name() $body
        }
    };
}

/// Native reference (replay mode): BIP-32 CKDpriv written against the primitives directly.
fn native_reference(seed: &[u8], comps: &[(bool, u32)]) -> Option<[u8; 32]> {
    use k256::elliptic_curve::sec1::ToEncodedPoint as _;
    let mut mac = Hmac::<Sha512>::new_from_slice(b"Bitcoin seed").unwrap();
    mac.update(seed);
    let i = mac.finalize().into_bytes();
    let mut key = [0u8; 32];
    let mut chain = [0u8; 32];
    key.copy_from_slice(&i[..32]);
    chain.copy_from_slice(&i[32..]);
    for &(hardened, index) in comps {
        if is_zero(&key) || !below_order(&key) {
            return None;
        }
        let mut data = Vec::new();
        if hardened {
            data.push(0);
            data.extend_from_slice(&key);
            data.extend_from_slice(&(index + 0x8000_0000).to_be_bytes());
        } else {
            let sk = SecretKey::from_slice(&key).unwrap();
            data.extend_from_slice(sk.public_key().to_encoded_point(true).as_bytes());
            data.extend_from_slice(&index.to_be_bytes());
        }
        let mut mac = Hmac::<Sha512>::new_from_slice(&chain).unwrap();
        mac.update(&data);
        let i = mac.finalize().into_bytes();
        let mut il = [0u8; 32];
        il.copy_from_slice(&i[..32]);
        if is_zero(&il) || !below_order(&il) {
            return None;
        }
        key = add_mod_n(&il, &key);
        chain.copy_from_slice(&i[32..]);
    }
    if is_zero(&key) || !below_order(&key) {
        return None;
    }
    Some(key)
}

fn check_derive<const L: usize, const D: usize>(force_kind: Option<bool>) {
    let seed: [u8; L] = kani::any();
    let mut comps = [(false, 0u32); D];
    let mut v = Vec::new();
    let mut d = 0;
    while d < D {
        let hardened: bool = match force_kind {
            Some(h) => h,
            None => kani::any(),
        };
        let index: u32 = kani::any();
        kani::assume(index < 0x8000_0000);
        comps[d] = (hardened, index);
        v.push(if hardened { Component::Hardened(index) } else { Component::Normal(index) });
        d += 1;
    }
    let path = make_path(v);
    unsafe {
        CB_N = 0;
        MUL_CALLS = 0;
    }
    let got = derive(&seed[..], &path);
    if !stubs_active() {
        let expect = native_reference(&seed, &comps);
        match (&got, &expect) {
            (Ok(k), Some(e)) => assert!(k.secret() == *e, "derived key differs from BIP-32"),
            (Err(_), None) => {}
            (Ok(_), None) => panic!("derivation yielded a key where BIP-32 declares the result invalid"),
            (Err(_), Some(_)) => panic!("derivation failed although BIP-32 defines a key"),
        }
        core::mem::forget(got);
        return;
    }
    // ---- specification over the recorded primitive calls
    let i0 = expect_hmac(0, b"Bitcoin seed", &seed);
    let mut key = [0u8; 32];
    let mut chain = [0u8; 32];
    key.copy_from_slice(&i0[..32]);
    chain.copy_from_slice(&i0[32..]);
    let mut valid = true;
    let mut dont_care = false;
    let mut muls = 0;
    let mut d = 0;
    while d < D && valid {
        if is_zero(&key) || !below_order(&key) {
            valid = false;
            break;
        }
        let (hardened, index) = comps[d];
        let mut data = [0u8; 37];
        if hardened {
            data[1..33].copy_from_slice(&key);
            let ib = (index + 0x8000_0000).to_be_bytes();
            data[33] = ib[0];
            data[34] = ib[1];
            data[35] = ib[2];
            data[36] = ib[3];
        } else {
            // serP(point(k_par)): the multiplication stub recorded the scalar and yielded G
            unsafe {
                assert!(D > 1 || eq32(&MUL_SCALAR, &key), "public key of the wrong scalar");
            }
            muls += 1;
            data[..33].copy_from_slice(&G_COMPRESSED);
            let ib = index.to_be_bytes();
            data[33] = ib[0];
            data[34] = ib[1];
            data[35] = ib[2];
            data[36] = ib[3];
        }
        let i = expect_hmac(4 * (d + 1), &chain, &data);
        let mut il = [0u8; 32];
        il.copy_from_slice(&i[..32]);
        chain.copy_from_slice(&i[32..]);
        if is_zero(&il) {
            // BIP-32 does not declare IL = 0 invalid; the implementation refuses it (2^-256): don't care
            dont_care = true;
            break;
        }
        if !below_order(&il) {
            valid = false;
            break;
        }
        key = add_mod_n(&il, &key);
        d += 1;
    }
    if valid && !dont_care && (is_zero(&key) || !below_order(&key)) {
        // the final key (for depth 0: the master key itself) must be a valid secret
        valid = false;
    }
    kani::cover!(valid && !dont_care, "key derived");
    kani::cover!(!valid, "invalid per BIP-32");
    if !dont_care {
        match &got {
            Ok(k) => {
                assert!(valid, "derivation yielded a key where BIP-32 declares the result invalid");
                let s = k.secret();
                assert!(eq32(&s, &key), "derived key differs from BIP-32 CKDpriv");
                unsafe {
                    assert!(CB_N == 4 * (D + 1), "number of HMAC invocations");
                    assert!(MUL_CALLS == muls, "number of public key computations");
                }
            }
            Err(_) => assert!(!valid, "derivation failed although BIP-32 defines a key"),
        }
    }
    core::mem::forget(got);
}

hdk_harness! { #[kani::unwind(132)] fn c03_master_s16() { check_derive::<16, 0>(None) } }
hdk_harness! { #[kani::unwind(132)] fn c03_master_s32() { check_derive::<32, 0>(None) } }
hdk_harness! { #[kani::unwind(132)] fn c03_master_s64() { check_derive::<64, 0>(None) } }
hdk_harness! { #[kani::unwind(132)] fn c03_d1_hardened_s64() { check_derive::<64, 1>(Some(true)) } }
hdk_harness! { #[kani::unwind(132)] fn c03_d1_normal_s64() { check_derive::<64, 1>(Some(false)) } }
hdk_harness! { #[kani::unwind(132)] fn c03_d1_any_s16() { check_derive::<16, 1>(None) } }
hdk_harness! { #[kani::unwind(132)] fn c03_d2_any_s64() { check_derive::<64, 2>(None) } }
// seeds longer than 64 bytes (BIP-32 allows up to 512 bits, other wallets feed more): still one SHA-512 block
hdk_harness! { #[kani::unwind(132)] fn c03_master_s65() { check_derive::<65, 0>(None) } }
hdk_harness! { #[kani::unwind(132)] fn c03_master_s96() { check_derive::<96, 0>(None) } }
