//! C08 / C09 / C20 / C17: Kani harnesses for `typeddata` (spliced into src/typeddata.rs).
#![allow(static_mut_refs)]
use super::*;
use crate::__verif_common::*;

// ------------------------------------------------------------------------------------------------
// `Types::type_definition` is a HashMap look-up (out of reach: two inserts and two gets did not
// finish). It is replaced by a look-up in a harness-owned table with the same contract:
// "the definition registered under exactly this name, or an error".
static mut DEFS: Vec<(&'static str, Vec<Member>)> = Vec::new();
// log of the look-ups (index into DEFS, 9 = not found), for the dependency-closure query
const MAXLOOKUPS: usize = 8;
static mut LOOKUPS: [usize; MAXLOOKUPS] = [99; MAXLOOKUPS];
static mut LOOKUP_N: usize = 0;
fn log_lookup(i: usize) {
    unsafe {
        if LOOKUP_N < MAXLOOKUPS {
            LOOKUPS[LOOKUP_N] = i;
        }
        LOOKUP_N += 1;
    }
}

impl Types {
    fn __verif_type_definition<'a>(&'a self, kind: &'a str) -> Result<TypeDefinition<'a>> {
        unsafe {
            let mut i = 0;
            while i < DEFS.len() {
                if bytes_eq_sym::<1>(DEFS[i].0.as_bytes(), kind.as_bytes()) {
                    log_lookup(i);
                    return Ok(TypeDefinition { kind, members: &DEFS[i].1 });
                }
                i += 1;
            }
        }
        log_lookup(9);
        Err(anyhow::Error::msg("missing EIP-712 type definition"))
    }
}

fn random_state_stub() -> std::collections::hash_map::RandomState {
    // fixed keys: the map stays empty, hashing is never observed
    unsafe { core::mem::transmute([0u64; 2]) }
}

fn empty_types() -> Types {
    Types(HashMap::new())
}

macro_rules! types_harness_base {
    ($(#[$m:meta])* fn $name:ident() $body:block) => {
        crate::verif_harness! {
            #[kani::stub(crate::typeddata::Types::type_definition, crate::typeddata::Types::__verif_type_definition)]
            #[kani::stub(std::hash::RandomState::new, random_state_stub)]
            #[kani::stub(ethdigest::Digest::of, crate::__verif_common::digest_of_stub80)]
            $(#[$m])*
            fn $name() $body
        }
    };
}
/// the standard harness for typed data: error-message rendering cut away (`core::fmt::write` writes nothing, see common.rs);
/// queries that need the real rendering (encodeType text) use `types_harness_base!`
macro_rules! types_harness {
    ($(#[$m:meta])* fn $name:ident() $body:block) => {
        types_harness_base! {
            #[kani::stub(core::fmt::write, crate::__verif_common::fmt_write_stub)]
            $(#[$m])*
            fn $name() $body
        }
    };
}

/// `types_harness!` plus the fixed pre-allocation model of `String` (common.rs): for queries whose cost is
/// dominated by text being appended piecewise to a growing `String` (`to_string()`, `write!(buffer, ..)`).
macro_rules! types_harness_cap {
    ($(#[$m:meta])* fn $name:ident() $body:block) => {
        types_harness_base! {
            #[kani::stub(alloc::string::String::new, crate::__verif_common::string_new_stub)]
            #[kani::stub(alloc::string::String::push, crate::__verif_common::string_push_stub)]
            #[kani::stub(alloc::string::String::push_str, crate::__verif_common::string_push_str_stub)]
            $(#[$m])*
            fn $name() $body
        }
    };
}

fn member(name: &str, kind: MemberKind) -> Member {
    Member { name: name.to_string(), kind }
}

// ================================================================================= C20: domain type

fn std_kind(i: usize) -> MemberKind {
    match i {
        0 | 1 => MemberKind::String,
        2 => MemberKind::Uint(256),
        3 => MemberKind::Address,
        _ => MemberKind::Bytes(Some(32)),
    }
}
/// kind palette: the five standard kinds (0..=4 as std_kind) plus near misses
fn palette_kind(k: u8) -> MemberKind {
    match k {
        0 => MemberKind::String,
        1 => MemberKind::Uint(256),
        2 => MemberKind::Address,
        3 => MemberKind::Bytes(Some(32)),
        4 => MemberKind::Bool,
        5 => MemberKind::Uint(8),
        6 => MemberKind::Bytes(None),
        _ => MemberKind::Bytes(Some(31)),
    }
}
fn palette_matches_std(k: u8, name: usize) -> bool {
    match name {
        0 | 1 => k == 0,
        2 => k == 1,
        3 => k == 2,
        _ => k == 3,
    }
}

fn blob() -> TypedDataBlob {
    TypedDataBlob {
        types: empty_types(),
        primary_type: String::new(),
        domain: JsonObject::new(),
        message: JsonObject::new(),
    }
}

// N declared members (N concrete per query); each name is a symbolic choice of the five standard
// names or a foreign one, each type a symbolic choice of eight kinds. Accepted iff non-empty,
// strictly increasing in the standard order (hence no repeats) and every type the standard one.
fn check_domain<const N: usize>() {
    let names: [u8; N] = kani::any();
    let kinds: [u8; N] = kani::any();
    let mut members = Vec::new();
    let mut i = 0;
    while i < N {
        kani::assume(names[i] < 6 && kinds[i] < 8);
        // one concrete-size allocation per arm (a symbolic-length `to_string` is far more expensive)
        let name: String = match names[i] {
            0 => "name".to_string(),
            1 => "version".to_string(),
            2 => "chainId".to_string(),
            3 => "verifyingContract".to_string(),
            4 => "salt".to_string(),
            _ => "foo".to_string(),
        };
        members.push(Member { name, kind: palette_kind(kinds[i]) });
        i += 1;
    }
    unsafe {
        DEFS = vec![("EIP712Domain", members)];
    }
    let b = blob();
    let got = b.verify_domain_type();
    let mut ok = N > 0;
    let mut i = 0;
    while i < N {
        if names[i] >= 5 {
            ok = false;
        } else {
            if !palette_matches_std(kinds[i], names[i] as usize) {
                ok = false;
            }
            if i > 0 && names[i - 1] >= names[i] {
                ok = false;
            }
        }
        i += 1;
    }
    kani::cover!(N == 0 || ok, "accepted");
    kani::cover!(!ok, "rejected");
    kani::cover!(N < 2 || (!ok && names[0] == names[1] && names[0] < 5 && palette_matches_std(kinds[0], names[0] as usize)
        && palette_matches_std(kinds[1], names[1] as usize)), "repeated field rejected");
    kani::cover!(N < 2 || (!ok && names[0] < 5 && names[1] < names[0]), "reordered fields rejected");
    match &got {
        Ok(()) => assert!(ok, "malformed EIP712Domain type accepted"),
        Err(_) => assert!(!ok, "well-formed EIP712Domain type rejected"),
    }
    core::mem::forget(got);
    core::mem::forget(b);
}
macro_rules! domain_harness {
    ($($name:ident = $n:expr, $u:expr;)*) => {$(
        types_harness! { #[kani::unwind($u)] fn $name() { check_domain::<$n>() } }
    )*};
}
domain_harness! {
    c20_domain_0 = 0, 7; c20_domain_1 = 1, 7; c20_domain_2 = 2, 7; c20_domain_3 = 3, 7;
    c20_domain_4 = 4, 7; c20_domain_5 = 5, 8; c20_domain_6 = 6, 9;
}

// a document without any EIP712Domain type is refused
types_harness! {
    #[kani::unwind(7)]
    fn c20_domain_missing() {
        unsafe { DEFS = vec![("Mail", vec![member("name", MemberKind::String)])]; }
        let b = blob();
        let got = b.verify_domain_type();
        kani::cover!(true, "reached");
        assert!(got.is_err(), "document without a domain type accepted");
        core::mem::forget(got);
        core::mem::forget(b);
    }
}

// ================================================================================= C08: encodeType
// Three struct types A, B, P with two members each; every member is a symbolic choice of
// {bool, A, B, P, A[], B[2]}: all 6^6 reference graphs, including self/mutual recursion (through
// arrays or directly), shared and repeated dependencies in every member order. The primary type is
// a symbolic choice too.
const TNAMES: [&str; 3] = ["A", "B", "P"];
fn graph_kind(c: u8) -> MemberKind {
    match c {
        0 => MemberKind::Bool,
        1 => MemberKind::Struct("A".to_string()),
        2 => MemberKind::Struct("B".to_string()),
        3 => MemberKind::Struct("P".to_string()),
        4 => MemberKind::Array(Box::new(MemberKind::Struct("A".to_string())), None),
        _ => MemberKind::Array(Box::new(MemberKind::Struct("B".to_string())), Some(2)),
    }
}
fn graph_ref(c: u8) -> Option<usize> {
    match c {
        1 | 4 => Some(0),
        2 | 5 => Some(1),
        3 => Some(2),
        _ => None,
    }
}
fn graph_text(c: u8) -> &'static str {
    match c {
        0 => "bool",
        1 => "A",
        2 => "B",
        3 => "P",
        4 => "A[]",
        _ => "B[2]",
    }
}
fn push_def(out: &mut [u8; 96], mut at: usize, t: usize, c0: u8, c1: u8) -> usize {
    let parts: [&str; 7] = [TNAMES[t], "(", graph_text(c0), " x,", graph_text(c1), " y", ")"];
    let mut p = 0;
    while p < 7 {
        let b = parts[p].as_bytes();
        let mut i = 0;
        while i < b.len() {
            out[at] = b[i];
            at += 1;
            i += 1;
        }
        p += 1;
    }
    at
}

/// the same without the array arms: symbolic execution does not prune match arms that only the
/// assumption `c < 4` excludes, and an Array variant anywhere in the merged value re-enables the
/// recursion of MemberKind::struct_reference at every call site
fn graph_kind_flat(c: u8) -> MemberKind {
    match c {
        0 => MemberKind::Bool,
        1 => MemberKind::Struct("A".to_string()),
        2 => MemberKind::Struct("B".to_string()),
        _ => MemberKind::Struct("P".to_string()),
    }
}

fn check_encode_type(primary: usize, choices: [u8; 6]) {
    check_encode_type_with(primary, choices, true)
}

fn check_encode_type_with(primary: usize, choices: [u8; 6], arrays: bool) {
    let mut defs = Vec::new();
    let mut t = 0;
    while t < 3 {
        let (x, y) = if arrays {
            (graph_kind(choices[2 * t]), graph_kind(choices[2 * t + 1]))
        } else {
            (graph_kind_flat(choices[2 * t]), graph_kind_flat(choices[2 * t + 1]))
        };
        defs.push((TNAMES[t], vec![member("x", x), member("y", y)]));
        t += 1;
    }
    unsafe { DEFS = defs; }
    let types = empty_types();
    let got = types.encode_type(TNAMES[primary]);
    // specification: transitive closure of the reference relation from the primary type
    let mut reach = [false; 3];
    let mut work = [false; 3];
    work[primary] = true;
    let mut round = 0;
    while round < 3 {
        let mut t = 0;
        while t < 3 {
            if work[t] {
                let mut m = 0;
                while m < 2 {
                    if let Some(r) = graph_ref(choices[2 * t + m]) {
                        if !reach[r] {
                            reach[r] = true;
                            work[r] = true;
                        }
                    }
                    m += 1;
                }
            }
            t += 1;
        }
        round += 1;
    }
    let mut exp = [0u8; 96];
    let mut n = push_def(&mut exp, 0, primary, choices[2 * primary], choices[2 * primary + 1]);
    let mut t = 0;
    while t < 3 {
        if reach[t] && t != primary {
            n = push_def(&mut exp, n, t, choices[2 * t], choices[2 * t + 1]);
        }
        t += 1;
    }
    kani::cover!(reach[primary], "recursive primary type");
    kani::cover!(reach[0] && reach[1] && reach[2], "everything reachable");
    kani::cover!(!reach[0] && !reach[1] && !reach[2], "no dependencies");
    kani::cover!(choices[2 * primary] != choices[2 * primary + 1] && graph_ref(choices[2 * primary]).is_some()
        && graph_ref(choices[2 * primary]) == graph_ref(choices[2 * primary + 1]), "repeated dependency");
    match &got {
        Ok(s) => {
            let sb = s.as_bytes();
            assert!(sb.len() == n, "encodeType: wrong set of referenced types (length differs)");
            assert!(bytes_eq_sym::<6>(sb, &exp[..n]), "encodeType differs from primary + sorted transitive dependencies");
        }
        Err(_) => panic!("encodeType failed on a closed type graph"),
    }
    core::mem::forget(got);
}

macro_rules! encode_type_harness {
    ($($name:ident = $p:expr;)*) => {$(
        types_harness_base! {
            #[kani::unwind(5)]
            fn $name() {
                let choices: [u8; 6] = kani::any();
                let mut i = 0;
                while i < 6 {
                    // symbolic choices are restricted to {bool, A, B, P}: with array kinds in the choice the
                    // recursive MemberKind::struct_reference is unrolled to the unwind bound at every call
                    // site (156 sites x depth 12, no result in 510 s); arrays are covered by the concrete
                    // graphs of c08_encode_type_arrays
                    kani::assume(choices[i] < 4);
                    i += 1;
                }
                check_encode_type_with($p, choices, false);
            }
        }
    )*};
}
encode_type_harness! { c08_encode_type_a = 0; c08_encode_type_b = 1; c08_encode_type_p = 2; }

// Smaller variant: primary P with members (x, y) symbolic, A and B have one symbolic member each.
types_harness_base! {
    #[kani::unwind(5)]
    fn c08_encode_type_small() {
        let c: [u8; 4] = kani::any();
        let mut i = 0;
        while i < 4 {
            kani::assume(c[i] < 4);
            i += 1;
        }
        check_encode_type_with(2, [c[0], 0, c[1], 0, c[2], c[3]], false);
    }
}

// Concrete graphs whose references go through (nested) arrays, including recursion through arrays:
// P(A[] x,B[2] y) A(P x,bool y) B(A[] x,A y)  and  self-recursive P(P x,A[] y).
types_harness_base! {
    #[kani::unwind(5)]
    fn c08_encode_type_arrays_mutual() {
        check_encode_type(2, [3, 0, 4, 1, 4, 5]);
        kani::cover!(true, "reached");
    }
}
types_harness_base! {
    #[kani::unwind(5)]
    fn c08_encode_type_arrays_self() {
        check_encode_type(2, [0, 0, 0, 0, 3, 4]);
        kani::cover!(true, "reached");
    }
}

// undefined struct reference -> error (C09)
types_harness! {
    #[kani::unwind(12)]
    fn c09_undefined_reference() {
        unsafe {
            DEFS = vec![("P", vec![member("x", MemberKind::Struct("Q".to_string()))])];
        }
        let types = empty_types();
        let got = types.encode_type("P");
        kani::cover!(true, "reached");
        assert!(got.is_err(), "reference to an undefined struct type accepted");
        core::mem::forget(got);
    }
}

// ================================================================================= C08: 0x1901 digest
static mut SH_CALLS: usize = 0;
static mut SH_OUT: [[u8; 32]; 2] = [[0; 32]; 2];
static mut SH_KIND_OK: [bool; 2] = [false; 2];
impl Types {
    fn __verif_struct_hash(&self, kind: &str, _data: JsonObject) -> Result<Digest> {
        unsafe {
            let i = SH_CALLS;
            assert!(i < 2, "more than two struct hashes");
            SH_KIND_OK[i] = if i == 0 { bytes_eq(kind.as_bytes(), b"EIP712Domain") } else { bytes_eq(kind.as_bytes(), b"Mail") };
            let out: [u8; 32] = kani::any();
            SH_OUT[i] = out;
            SH_CALLS = i + 1;
            let fail: bool = kani::any();
            if fail {
                return Err(anyhow::Error::msg("struct hash failed"));
            }
            Ok(Digest(out))
        }
    }
}
types_harness! {
    #[kani::stub(crate::typeddata::Types::struct_hash, crate::typeddata::Types::__verif_struct_hash)]
    #[kani::unwind(14)]
    fn c08_final_digest() {
        unsafe {
            DEFS = vec![("EIP712Domain", vec![member("name", MemberKind::String)])];
            SH_CALLS = 0;
        }
        let mut b = blob();
        b.primary_type = "Mail".to_string();
        let got = b.compute();
        kani::cover!(got.is_ok(), "digest computed");
        kani::cover!(got.is_err(), "struct hash error propagated");
        if let Ok(td) = &got {
            unsafe {
                assert!(SH_CALLS == 2 && SH_KIND_OK[0] && SH_KIND_OK[1], "domain hashed as EIP712Domain, message as the primary type");
                let mut pre = [0u8; 66];
                pre[0] = 0x19;
                pre[1] = 0x01;
                pre[2..34].copy_from_slice(&SH_OUT[0]);
                pre[34..66].copy_from_slice(&SH_OUT[1]);
                assert!(digest_calls() == 1);
                digest_expect80(0, &pre, &td.signing_message().0);
                assert!(eq32(&td.domain_separator().0, &SH_OUT[0]), "domain separator");
                assert!(eq32(&td.message_hash().0, &SH_OUT[1]), "message hash");
            }
        }
        core::mem::forget(got);
    }
}

// ================================================================================= C09: integer ranges
// The JSON number parser is abstracted: it returns an arbitrary 256-bit value (which spellings give
// which value is C13). All 2^256 values x all 32 widths in one query each.
static mut PARSED: [u8; 32] = [0; 32];
fn halves(v: &[u8; 32]) -> (u128, u128) {
    (
        u128::from_be_bytes([v[0], v[1], v[2], v[3], v[4], v[5], v[6], v[7], v[8], v[9], v[10], v[11], v[12], v[13], v[14], v[15]]),
        u128::from_be_bytes([v[16], v[17], v[18], v[19], v[20], v[21], v[22], v[23], v[24], v[25], v[26], v[27], v[28], v[29], v[30], v[31]]),
    )
}
fn permissive_stub<'de, T, D>(_deserializer: D) -> core::result::Result<T, D::Error>
where
    T: permissive::Permissive,
    D: Deserializer<'de>,
{
    let b: [u8; 32] = kani::any();
    unsafe { PARSED = b; }
    Ok(T::cast(I256::from_be_bytes(b)))
}

types_harness! {
    #[kani::stub(ethnum::serde::permissive::deserialize, permissive_stub)]
    #[kani::unwind(4)]
    fn c09_uint_range() {
        let k: u32 = kani::any();
        kani::assume(k >= 1 && k <= 32);
        let n = 8 * k;
        let types = empty_types();
        let got = types.encode_value(&MemberKind::Uint(n), Value::Null);
        let v = unsafe { PARSED };
        // v < 2^n, on the two 128-bit halves (no loop)
        let (hi, lo) = halves(&v);
        let fits = if n >= 256 {
            true
        } else if n >= 128 {
            hi >> (n - 128) == 0
        } else {
            hi == 0 && lo >> n == 0
        };
        kani::cover!(fits && k == 1 && v[31] == 0xff, "uint8 255 accepted");
        kani::cover!(!fits && k == 1, "uint8 overflow rejected");
        kani::cover!(fits && k == 32 && v[0] == 0xff, "uint256 maximum accepted");
        kani::cover!(!fits && k == 31, "uint248 overflow rejected");
        match &got {
            Ok(word) => {
                assert!(fits, "value outside [0, 2^N) accepted for uintN");
                assert!(eq32(word, &v), "encoded word differs from the value");
            }
            Err(_) => assert!(!fits, "value inside [0, 2^N) rejected for uintN"),
        }
        core::mem::forget(got);
    }
}

types_harness! {
    #[kani::stub(ethnum::serde::permissive::deserialize, permissive_stub)]
    #[kani::unwind(4)]
    fn c09_int_range() {
        let k: u32 = kani::any();
        kani::assume(k >= 1 && k <= 32);
        let n = 8 * k;
        let types = empty_types();
        let got = types.encode_value(&MemberKind::Int(n), Value::Null);
        let v = unsafe { PARSED };
        // -2^(n-1) <= v < 2^(n-1) in two's complement <=> bits n-1..255 are all equal (no loop)
        let (hi, lo) = halves(&v);
        let m = n - 1; // sign bit position of the declared width
        let fits = if m >= 128 {
            let t = (hi as i128) >> (m - 128);
            t == 0 || t == -1
        } else {
            let t = (lo as i128) >> m;
            (hi == 0 && t == 0) || (hi == u128::MAX && t == -1)
        };
        kani::cover!(fits && k == 1 && v[31] == 0x7f, "int8 127 accepted");
        kani::cover!(fits && k == 1 && v[31] == 0x80, "int8 -128 accepted");
        kani::cover!(!fits && k == 1 && v[30] == 0 && v[31] == 0x80, "int8 128 rejected");
        kani::cover!(!fits && k == 1 && v[30] == 0xff && v[31] == 0x7f && v[0] == 0xff, "int8 -129 rejected");
        kani::cover!(fits && k == 32 && v[0] == 0x80, "int256 minimum accepted");
        match &got {
            Ok(word) => {
                assert!(fits, "value outside [-2^(N-1), 2^(N-1)) accepted for intN");
                assert!(eq32(word, &v), "encoded word is not the sign-extended two's complement value");
            }
            Err(_) => assert!(!fits, "value inside [-2^(N-1), 2^(N-1)) rejected for intN"),
        }
        core::mem::forget(got);
    }
}

// ================================================================================= C08/C09: atoms
fn hex_string(bytes: &[u8]) -> String {
    let mut s = String::from("0x");
    let mut i = 0;
    while i < bytes.len() {
        s.push(b"0123456789abcdef"[(bytes[i] >> 4) as usize] as char);
        s.push(b"0123456789abcdef"[(bytes[i] & 15) as usize] as char);
        i += 1;
    }
    s
}

// bool: true -> 1, false -> 0, any other JSON kind refused
types_harness! {
    #[kani::unwind(6)]
    fn c08_atom_bool() {
        let which: u8 = kani::any();
        kani::assume(which < 4);
        let bv: bool = kani::any();
        let value = match which {
            0 => Value::Bool(bv),
            1 => Value::Null,
            2 => Value::String(String::from("true")),
            _ => Value::Number(serde_json::Number::from(1u64)),
        };
        let types = empty_types();
        let got = types.encode_value(&MemberKind::Bool, value);
        kani::cover!(which == 0 && bv, "true");
        kani::cover!(which == 3, "number refused");
        match &got {
            Ok(word) => {
                assert!(which == 0, "JSON value of the wrong kind accepted as bool");
                let mut exp = [0u8; 32];
                exp[31] = bv as u8;
                assert!(eq32(word, &exp));
            }
            Err(_) => assert!(which != 0, "JSON boolean refused"),
        }
        core::mem::forget(got);
    }
}

// bytesN: exactly N bytes accepted (left-aligned, zero padded), N-1 and N+1 refused.
// The hex-string deserializer `serialization::bytes::deserialize` is abstracted here (it returns the
// harness' byte string, or an error) and decided on its own in C13 (`c13_bytes_N`, `c13_bytes_wrong_kind`).
static mut LEAF_BYTES: Vec<u8> = Vec::new();
static mut LEAF_FAIL: bool = false;
fn bytes_leaf_stub<'de, D>(_deserializer: D) -> core::result::Result<Vec<u8>, D::Error>
where
    D: Deserializer<'de>,
{
    unsafe {
        if LEAF_FAIL {
            return Err(de::Error::custom("not a byte string"));
        }
        Ok(LEAF_BYTES.clone())
    }
}

fn check_bytes_n<const N: usize, const L: usize>() {
    let data: [u8; L] = kani::any();
    let fail: bool = kani::any();
    unsafe {
        LEAF_BYTES = data.to_vec();
        LEAF_FAIL = fail;
    }
    let types = empty_types();
    let got = types.encode_value(&MemberKind::Bytes(Some(N as u32)), Value::Null);
    kani::cover!(!fail, "leaf accepted");
    kani::cover!(fail, "leaf refused");
    match &got {
        Ok(word) => {
            assert!(!fail, "value refused by the byte-string parser was accepted");
            assert!(L == N, "byte string of the wrong length accepted for bytesN");
            let mut exp = [0u8; 32];
            if L <= 32 {
                exp[..L].copy_from_slice(&data[..]);
            }
            assert!(eq32(word, &exp), "bytesN must be left-aligned and zero padded");
        }
        Err(_) => assert!(fail || L != N, "byte string of exactly N bytes refused for bytesN"),
    }
    core::mem::forget(got);
}
macro_rules! bytes_n_harness {
    ($($name:ident = ($n:expr, $l:expr), $u:expr;)*) => {$(
        types_harness! {
            #[kani::stub(crate::serialization::bytes::deserialize, bytes_leaf_stub)]
            #[kani::unwind($u)]
            fn $name() { check_bytes_n::<$n, $l>() }
        }
    )*};
}
bytes_n_harness! {
    c09_bytes1_len0 = (1, 0), 12; c09_bytes1_len1 = (1, 1), 12; c09_bytes1_len2 = (1, 2), 12;
    c09_bytes4_len3 = (4, 3), 12; c09_bytes4_len4 = (4, 4), 12; c09_bytes4_len5 = (4, 5), 12;
    c09_bytes31_len31 = (31, 31), 12; c09_bytes31_len32 = (31, 32), 12;
    c09_bytes32_len31 = (32, 31), 12; c09_bytes32_len32 = (32, 32), 12; c09_bytes32_len33 = (32, 33), 12;
}

// dynamic bytes: Keccak-256 of the raw bytes (same leaf abstraction)
types_harness! {
    #[kani::stub(crate::serialization::bytes::deserialize, bytes_leaf_stub)]
    #[kani::unwind(12)]
    fn c08_atom_bytes_dynamic() {
        let data: [u8; 37] = kani::any();
        unsafe {
            LEAF_BYTES = data.to_vec();
            LEAF_FAIL = false;
        }
        let types = empty_types();
        let got = types.encode_value(&MemberKind::Bytes(None), Value::Null);
        kani::cover!(true, "reached");
        match &got {
            Ok(word) => {
                if stubs_active() {
                    assert!(digest_calls() == 1);
                }
                digest_expect80(0, &data, word);
            }
            Err(_) => panic!("well-formed dynamic bytes refused"),
        }
        core::mem::forget(got);
    }
}

// address: 20 bytes right-aligned
types_harness! {
    #[kani::unwind(24)]
    fn c08_atom_address() {
        let a: [u8; 20] = kani::any();
        let types = empty_types();
        let got = types.encode_value(&MemberKind::Address, Value::String(hex_string(&a)));
        kani::cover!(true, "reached");
        match &got {
            Ok(word) => {
                let mut exp = [0u8; 32];
                exp[12..].copy_from_slice(&a);
                assert!(eq32(word, &exp), "address must be right-aligned");
            }
            Err(_) => panic!("well-formed address refused"),
        }
        core::mem::forget(got);
    }
}

// strings: Keccak-256 of the UTF-8 text (real `Cow<str>` deserializer)
types_harness! {
    #[kani::unwind(12)]
    fn c08_atom_string() {
        let data: [u8; 5] = kani::any();
        let types = empty_types();
        let mut i = 0;
        while i < 5 {
            kani::assume(data[i] < 0x80);
            i += 1;
        }
        let s = unsafe { String::from_utf8_unchecked(data.to_vec()) };
        let got = types.encode_value(&MemberKind::String, Value::String(s));
        kani::cover!(true, "reached");
        match &got {
            Ok(word) => {
                if stubs_active() {
                    assert!(digest_calls() == 1);
                }
                digest_expect80(0, &data, word);
            }
            Err(_) => panic!("well-formed string refused"),
        }
        core::mem::forget(got);
    }
}

// arrays of atoms: Keccak-256 of the concatenated element words; fixed size enforced
fn check_array<const SIZE: usize, const LEN: usize>(fixed: bool) {
    let elems: [bool; LEN] = kani::any();
    let mut vals = Vec::new();
    let mut i = 0;
    while i < LEN {
        vals.push(Value::Bool(elems[i]));
        i += 1;
    }
    let kind = MemberKind::Array(Box::new(MemberKind::Bool), if fixed { Some(SIZE) } else { None });
    let types = empty_types();
    let got = types.encode_value(&kind, Value::Array(vals));
    kani::cover!(true, "reached");
    match &got {
        Ok(word) => {
            assert!(!fixed || LEN == SIZE, "fixed-size array with a different number of elements accepted");
            let mut pre = [0u8; 128];
            let mut i = 0;
            while i < LEN {
                pre[32 * i + 31] = elems[i] as u8;
                i += 1;
            }
            if stubs_active() {
                assert!(digest_calls() == 1);
            }
            digest_expect80(0, &pre[..32 * LEN], word);
        }
        Err(_) => assert!(fixed && LEN != SIZE, "well-formed array refused"),
    }
    core::mem::forget(got);
}
macro_rules! array_harness {
    ($($name:ident = ($s:expr, $l:expr, $f:expr), $u:expr;)*) => {$(
        types_harness! { #[kani::unwind($u)] fn $name() { check_array::<$s, $l>($f) } }
    )*};
}
array_harness! {
    c09_array_fixed2_len1 = (2, 1, true), 7; c09_array_fixed2_len2 = (2, 2, true), 7; c09_array_fixed2_len3 = (2, 3, true), 7;
    c08_array_dyn_len0 = (0, 0, false), 7; c08_array_dyn_len2 = (0, 2, false), 7;
}

// ================================================================================= C08: member type grammar
#[derive(Clone, Copy, PartialEq)]
enum Base {
    Bool,
    Address,
    Bytes,
    Str,
    BytesN(u32),
    Uint(u32),
    Int(u32),
    Struct(usize, usize), // byte range of the name
}

fn parse_u32(d: &[u8]) -> Option<Option<u32>> {
    // Some(Some(v)) canonical number, Some(None) don't-care spelling ('+', leading zero), None not a number
    if d.is_empty() {
        return None;
    }
    if d[0] == b'+' {
        return Some(None);
    }
    let mut v: u64 = 0;
    let mut i = 0;
    while i < d.len() {
        if !d[i].is_ascii_digit() {
            return None;
        }
        v = v * 10 + (d[i] - b'0') as u64;
        if v > u32::MAX as u64 {
            return None;
        }
        i += 1;
    }
    if d.len() > 1 && d[0] == b'0' {
        return Some(None);
    }
    Some(Some(v as u32))
}

/// EIP-712 member type grammar over ASCII text: returns (base, dims outermost first, dont_care).
fn spec_kind(s: &[u8]) -> (Base, [Option<usize>; 6], usize, bool) {
    let mut dims = [None; 6];
    let mut nd = 0;
    let mut end = s.len();
    let mut dont_care = false;
    loop {
        let t = &s[..end];
        if bytes_eq(t, b"bool") {
            return (Base::Bool, dims, nd, dont_care);
        }
        if bytes_eq(t, b"address") {
            return (Base::Address, dims, nd, dont_care);
        }
        if bytes_eq(t, b"bytes") {
            return (Base::Bytes, dims, nd, dont_care);
        }
        if bytes_eq(t, b"string") {
            return (Base::Str, dims, nd, dont_care);
        }
        // <prefix><number>
        let mut i = 0;
        while i < t.len() && !t[i].is_ascii_digit() {
            i += 1;
        }
        if i < t.len() {
            match parse_u32(&t[i..]) {
                Some(Some(n)) => {
                    let p = &t[..i];
                    if bytes_eq(p, b"bytes") && n >= 1 && n <= 32 {
                        return (Base::BytesN(n), dims, nd, dont_care);
                    }
                    if bytes_eq(p, b"uint") && n % 8 == 0 && n >= 8 && n <= 256 {
                        return (Base::Uint(n), dims, nd, dont_care);
                    }
                    if bytes_eq(p, b"int") && n % 8 == 0 && n >= 8 && n <= 256 {
                        return (Base::Int(n), dims, nd, dont_care);
                    }
                }
                Some(None) => dont_care = true,
                None => {}
            }
        }
        // array suffixes
        if t.len() >= 2 && t[t.len() - 2] == b'[' && t[t.len() - 1] == b']' {
            if nd < 6 {
                dims[nd] = None;
            }
            nd += 1;
            end -= 2;
            continue;
        }
        if !t.is_empty() && t[t.len() - 1] == b']' {
            let mut lb = t.len() - 1;
            let mut found = false;
            while lb > 0 {
                lb -= 1;
                if t[lb] == b'[' {
                    found = true;
                    break;
                }
            }
            if found {
                match parse_u32(&t[lb + 1..t.len() - 1]) {
                    Some(Some(n)) => {
                        if nd < 6 {
                            dims[nd] = Some(n as usize);
                        }
                        nd += 1;
                        end = lb;
                        continue;
                    }
                    Some(None) => dont_care = true,
                    None => {}
                }
            }
        }
        return (Base::Struct(0, end), dims, nd, dont_care);
    }
}

fn check_kind_grammar(text: &[u8]) {
    let s = unsafe { core::str::from_utf8_unchecked(text) };
    let got = MemberKind::from_str(s);
    let (base, dims, nd, dont_care) = spec_kind(text);
    kani::cover!(!dont_care && nd == 2, "two array dimensions");
    kani::cover!(!dont_care && nd == 1 && dims[0] == Some(3), "fixed array of three");
    kani::cover!(!dont_care && nd == 0 && matches!(base, Base::Uint(256)), "uint256");
    kani::cover!(!dont_care && nd == 0 && matches!(base, Base::BytesN(_)), "bytesN");
    kani::cover!(!dont_care && nd == 1 && matches!(base, Base::Int(_)), "array of intN");
    kani::cover!(!dont_care && nd == 0 && matches!(base, Base::Struct(_, _)) && text.len() > 3, "struct name");
    if !dont_care {
        let mut cur = &got;
        let mut d = 0;
        while d < nd && d < 6 {
            match cur {
                MemberKind::Array(inner, size) => {
                    assert!(*size == dims[d], "array dimension differs");
                    cur = inner;
                }
                _ => panic!("array suffix not recognised"),
            }
            d += 1;
        }
        match (cur, base) {
            (MemberKind::Bool, Base::Bool) | (MemberKind::Address, Base::Address) | (MemberKind::String, Base::Str)
            | (MemberKind::Bytes(None), Base::Bytes) => {}
            (MemberKind::Bytes(Some(a)), Base::BytesN(b)) => assert!(*a == b),
            (MemberKind::Uint(a), Base::Uint(b)) => assert!(*a == b),
            (MemberKind::Int(a), Base::Int(b)) => assert!(*a == b),
            (MemberKind::Struct(name), Base::Struct(lo, hi)) => {
                assert!(bytes_eq_sym::<1>(name.as_bytes(), &text[lo..hi]), "struct name differs")
            }
            _ => panic!("member type parsed to a different kind than the EIP-712 grammar defines"),
        }
    }
    core::mem::forget(got);
}

fn check_kind_ascii<const N: usize>() {
    let text: [u8; N] = kani::any();
    let mut i = 0;
    while i < N {
        kani::assume(text[i] < 0x80);
        i += 1;
    }
    check_kind_grammar(&text);
}
macro_rules! kind_harness {
    ($($name:ident = $n:expr, $u:expr;)*) => {$(
        crate::verif_harness! { #[kani::unwind($u)] fn $name() { check_kind_ascii::<$n>() } }
    )*};
}
kind_harness! {
    c08_kind_ascii_3 = 3, 8; c08_kind_ascii_4 = 4, 8; c08_kind_ascii_5 = 5, 8; c08_kind_ascii_6 = 6, 9;
    c08_kind_ascii_7 = 7, 10; c08_kind_ascii_8 = 8, 11; c08_kind_ascii_9 = 9, 12; c08_kind_ascii_10 = 10, 13;
}

// a type string with 64 array suffixes terminates and yields 64 nested dimensions (C17)
crate::verif_harness! {
    #[kani::unwind(140)]
    fn c17_kind_64_suffixes() {
        let mut text = [b'['; 129];
        text[0] = b'T';
        let mut i = 0;
        while i < 64 {
            text[2 + 2 * i] = b']';
            i += 1;
        }
        let s = unsafe { core::str::from_utf8_unchecked(&text) };
        let got = MemberKind::from_str(s);
        kani::cover!(true, "reached");
        let mut cur = &got;
        let mut d = 0;
        while let MemberKind::Array(inner, None) = cur {
            cur = inner;
            d += 1;
        }
        assert!(d == 64 && matches!(cur, MemberKind::Struct(_)));
        core::mem::forget(got);
    }
}

// ------------------------------------------------------------------------------------------------
// Width grammar with a concrete prefix and symbolic decimal digits: "uint"/"int"/"bytes" followed by
// 1..=3 symbolic digits (every width 0..=999 in every spelling), optionally followed by "[]".
// (All ASCII strings of N bytes through the recursive parser -- c08_kind_ascii_N -- did not finish:
// the recursion is unrolled to the unwind bound at every call site.)
fn check_width(prefix: &'static [u8], array: bool) {
    let d: [u8; 3] = kani::any();
    let nd: usize = kani::any();
    kani::assume(nd >= 1 && nd <= 3);
    let mut text = [0u8; 10];
    let pl = prefix.len();
    text[..pl].copy_from_slice(prefix);
    let mut k = 0;
    let mut value: u32 = 0;
    while k < 3 {
        if k < nd {
            kani::assume(d[k].is_ascii_digit());
            text[pl + k] = d[k];
            value = value * 10 + (d[k] - b'0') as u32;
        }
        k += 1;
    }
    let mut n = pl + nd;
    if array {
        text[n] = b'[';
        text[n + 1] = b']';
        n += 2;
    }
    let leading_zero = nd > 1 && d[0] == b'0';
    let s = unsafe { core::str::from_utf8_unchecked(&text[..n]) };
    let got = MemberKind::from_str(s);
    let is_bytes = prefix.len() == 5;
    let is_uint = prefix.len() == 4;
    let valid = if is_bytes { value >= 1 && value <= 32 } else { value % 8 == 0 && value >= 8 && value <= 256 };
    kani::cover!(valid && value == 256, "256 accepted (integers)");
    kani::cover!(valid && value == 32, "32 accepted");
    kani::cover!(!valid && value == 33, "33");
    kani::cover!(!valid && value == 0, "zero width");
    kani::cover!(valid && value == 8 && !leading_zero, "8");
    if !leading_zero {
        let inner = if array {
            match &got {
                MemberKind::Array(inner, None) => &**inner,
                _ => panic!("array suffix not recognised"),
            }
        } else {
            &got
        };
        match inner {
            MemberKind::Bytes(Some(w)) => assert!(is_bytes && valid && *w == value, "bytesN width"),
            MemberKind::Uint(w) => assert!(is_uint && !is_bytes && valid && *w == value, "uintN width"),
            MemberKind::Int(w) => assert!(!is_uint && !is_bytes && valid && *w == value, "intN width"),
            MemberKind::Struct(name) => {
                assert!(!valid, "valid width parsed as a struct name");
                assert!(name.len() == pl + nd, "struct name is the whole text");
            }
            _ => panic!("width type parsed to an unrelated kind"),
        }
    }
    core::mem::forget(got);
}
crate::verif_harness! { #[kani::stub(core::unicode::unicode_data::n::lookup, crate::__verif_common::unicode_n_stub)] #[kani::unwind(2)] fn c08_kind_width_uint() { check_width(b"uint", false) } }
crate::verif_harness! { #[kani::stub(core::unicode::unicode_data::n::lookup, crate::__verif_common::unicode_n_stub)] #[kani::unwind(2)] fn c08_kind_width_int() { check_width(b"int", false) } }
crate::verif_harness! { #[kani::stub(core::unicode::unicode_data::n::lookup, crate::__verif_common::unicode_n_stub)] #[kani::unwind(2)] fn c08_kind_width_bytes() { check_width(b"bytes", false) } }
crate::verif_harness! { #[kani::stub(core::unicode::unicode_data::n::lookup, crate::__verif_common::unicode_n_stub)] #[kani::unwind(2)] fn c08_kind_width_uint_array() { check_width(b"uint", true) } }
crate::verif_harness! { #[kani::stub(core::unicode::unicode_data::n::lookup, crate::__verif_common::unicode_n_stub)] #[kani::unwind(2)] fn c08_kind_width_bytes_array() { check_width(b"bytes", true) } }

// ------------------------------------------------------------------------------------------------
// encodeType over symbolic reference graphs with CONCRETE member kinds: every member is
// `Struct(<one symbolic byte>)` with the byte in {A, B, P, Z}; Z is a leaf type without members. The enum
// discriminant is a constant, so neither the recursive struct_reference nor the integer-formatting arms of
// Display are explored (a symbolic discriminant made them explode, see above); the graph is symbolic through
// the name bytes: all 4^6 graphs on {A, B, P} with two members each, primary type P, A or B.
const NAMES4: [u8; 4] = [b'A', b'B', b'P', b'Z'];
fn push_def_names(out: &mut [u8; 64], mut at: usize, t: u8, m0: u8, m1: u8, leaf: bool) -> usize {
    out[at] = t;
    out[at + 1] = b'(';
    at += 2;
    if !leaf {
        out[at] = m0;
        out[at + 1] = b' ';
        out[at + 2] = b'x';
        out[at + 3] = b',';
        out[at + 4] = m1;
        out[at + 5] = b' ';
        out[at + 6] = b'y';
        at += 7;
    }
    out[at] = b')';
    at + 1
}

fn check_encode_type_names(primary: usize) {
    let c: [u8; 6] = kani::any();
    let mut i = 0;
    while i < 6 {
        kani::assume(c[i] < 4);
        i += 1;
    }
    let name_of = |k: u8| -> String {
        // concrete length, symbolic content
        let mut s = String::with_capacity(8);
        s.push(NAMES4[k as usize] as char);
        s
    };
    let mut defs = Vec::new();
    let mut t = 0;
    while t < 3 {
        defs.push((TNAMES[t], vec![
            member("x", MemberKind::Struct(name_of(c[2 * t]))),
            member("y", MemberKind::Struct(name_of(c[2 * t + 1]))),
        ]));
        t += 1;
    }
    defs.push(("Z", vec![]));
    unsafe { DEFS = defs; }
    let types = empty_types();
    let got = types.encode_type(TNAMES[primary]);
    // closure over {A, B, P, Z} (index 3 = Z)
    let mut reach = [false; 4];
    let mut work = [false; 4];
    work[primary] = true;
    let mut round = 0;
    while round < 3 {
        let mut t = 0;
        while t < 3 {
            if work[t] {
                let mut m = 0;
                while m < 2 {
                    let r = c[2 * t + m] as usize;
                    if !reach[r] {
                        reach[r] = true;
                        work[r] = true;
                    }
                    m += 1;
                }
            }
            t += 1;
        }
        round += 1;
    }
    let mut exp = [0u8; 64];
    let mut n = push_def_names(&mut exp, 0, NAMES4[primary], NAMES4[c[2 * primary] as usize], NAMES4[c[2 * primary + 1] as usize], false);
    let mut t = 0;
    while t < 4 {
        if reach[t] && t != primary {
            n = if t < 3 {
                push_def_names(&mut exp, n, NAMES4[t], NAMES4[c[2 * t] as usize], NAMES4[c[2 * t + 1] as usize], false)
            } else {
                push_def_names(&mut exp, n, b'Z', 0, 0, true)
            };
        }
        t += 1;
    }
    kani::cover!(reach[primary], "recursive primary type");
    kani::cover!(reach[0] && reach[1] && reach[2] && reach[3], "everything reachable");
    kani::cover!(c[2 * primary] == c[2 * primary + 1], "repeated dependency");
    kani::cover!(c[2 * primary] != c[2 * primary + 1] && c[2 * primary + 1] as usize != primary && reach[primary], "mutual recursion");
    match &got {
        Ok(s) => {
            let sb = s.as_bytes();
            assert!(sb.len() == n, "encodeType: wrong set of referenced types (length differs)");
            assert!(bytes_eq_sym::<4>(sb, &exp[..n]), "encodeType differs from primary + sorted transitive dependencies");
        }
        Err(_) => panic!("encodeType failed on a closed type graph"),
    }
    core::mem::forget(got);
}
types_harness_base! { #[kani::unwind(8)] fn c08_encode_type_names_p() { check_encode_type_names(2) } }
types_harness_base! { #[kani::unwind(8)] fn c08_encode_type_names_a() { check_encode_type_names(0) } }
types_harness_base! { #[kani::unwind(8)] fn c08_encode_type_names_b() { check_encode_type_names(1) } }
types_harness_cap! { #[kani::unwind(8)] fn c08_encode_type_names_p_cap() { check_encode_type_names(2) } }
types_harness_cap! { #[kani::unwind(8)] fn c08_encode_type_names_a_cap() { check_encode_type_names(0) } }

// ================================================================================= C08 / C09: hashStruct
// `Types::struct_hash` with its callees as recorders: `type_hash` returns a symbolic typeHash, `encode_value` logs
// WHICH declared member (by address of its kind) it is asked to encode with WHICH JSON value and returns a symbolic
// word or an error. The message object holds a symbolic subset of the declared members "a", "b" and an undeclared
// member "c". Specification: Ok iff exactly the declared members are present and every value encodes; then the result
// is one Keccak over typeHash || word(a) || word(b) in DECLARATION order, each value paired with its own member; any
// missing or undeclared member and any encoding error is an error and nothing is hashed.
static mut TH_CALLS: usize = 0;
static mut TH_KIND_OK: bool = false;
static mut TH_OUT: [u8; 32] = [0; 32];
static mut EV_CALLS: usize = 0;
static mut EV_MEMBER: [usize; 3] = [9; 3];
static mut EV_VALUE: [u64; 3] = [0; 3];
static mut EV_OUT: [[u8; 32]; 3] = [[0; 32]; 3];
static mut EV_FAIL: [bool; 3] = [false; 3];
impl Types {
    fn __verif_type_hash(&self, kind: &str) -> Result<Digest> {
        unsafe {
            TH_CALLS += 1;
            TH_KIND_OK = bytes_eq(kind.as_bytes(), b"T");
            let out: [u8; 32] = kani::any();
            TH_OUT = out;
            Ok(Digest(out))
        }
    }
    fn __verif_encode_value(&self, kind: &MemberKind, value: Value) -> Result<[u8; 32]> {
        unsafe {
            let i = EV_CALLS;
            assert!(i < 3, "more values encoded than members declared");
            let members = &DEFS[0].1;
            EV_MEMBER[i] = if core::ptr::eq(kind, &members[0].kind) { 0 } else if core::ptr::eq(kind, &members[1].kind) { 1 } else { 7 };
            EV_VALUE[i] = value.as_u64().unwrap_or(99);
            core::mem::forget(value);
            EV_CALLS = i + 1;
            let fail: bool = kani::any();
            EV_FAIL[i] = fail;
            if fail {
                return Err(anyhow::Error::msg("value does not conform to its type"));
            }
            let out: [u8; 32] = kani::any();
            EV_OUT[i] = out;
            Ok(out)
        }
    }
}
fn check_struct_hash<const MASK: u8>() {
        unsafe {
            DEFS = vec![("T", vec![member("a", MemberKind::Bool), member("b", MemberKind::String)])];
            TH_CALLS = 0;
            EV_CALLS = 0;
        }
        // which members the object holds is concrete per query (the JSON object is a BTreeMap: with a symbolic shape the
        // query did not finish in 30 min); values, typeHash, member words and per-member verdicts are symbolic
        let present: [bool; 3] = [MASK & 1 != 0, MASK & 2 != 0, MASK & 4 != 0];
        let mut data = JsonObject::new();
        // inserted in an order that is neither declaration nor key order
        // the undeclared member's value is a number or JSON null (a `null` left-over must not pass for "consumed")
        let extra_null: bool = kani::any();
        if present[2] {
            data.insert("c".to_string(), if extra_null { Value::Null } else { Value::Number(serde_json::Number::from(3u64)) });
        }
        if present[1] { data.insert("b".to_string(), Value::Number(serde_json::Number::from(2u64))); }
        if present[0] { data.insert("a".to_string(), Value::Number(serde_json::Number::from(1u64))); }
        let types = empty_types();
        let got = types.struct_hash("T", data);
        let conforming = present[0] && present[1] && !present[2];
        kani::cover!(!conforming || got.is_ok(), "conforming object hashed");
        kani::cover!(!conforming || got.is_err(), "encoding error propagated");
        kani::cover!(conforming || got.is_err(), "non-conforming object refused");
        kani::cover!(!present[2] || extra_null, "undeclared member whose value is null");
        unsafe {
            match &got {
                Ok(d) => {
                    assert!(conforming, "object with a missing or an undeclared member hashed");
                    assert!(TH_CALLS == 1 && TH_KIND_OK, "typeHash of the struct's own type");
                    assert!(EV_CALLS == 2 && !EV_FAIL[0] && !EV_FAIL[1], "every member encoded, no error swallowed");
                    assert!(EV_MEMBER[0] == 0 && EV_VALUE[0] == 1, "first word is not member a with a's value");
                    assert!(EV_MEMBER[1] == 1 && EV_VALUE[1] == 2, "second word is not member b with b's value");
                    let mut pre = [0u8; 96];
                    pre[0..32].copy_from_slice(&TH_OUT);
                    pre[32..64].copy_from_slice(&EV_OUT[0]);
                    pre[64..96].copy_from_slice(&EV_OUT[1]);
                    assert!(digest_calls() == 1);
                    digest_expect96(0, &pre, &d.0);
                }
                Err(_) => {
                    assert!(!conforming || EV_FAIL[0] || EV_FAIL[1], "conforming object refused");
                    assert!(digest_calls() == 0, "something was hashed although the object does not conform");
                }
            }
        }
        core::mem::forget(got);
}
macro_rules! struct_hash_harness {
    ($($name:ident = $m:expr;)*) => {$(
        crate::verif_harness! {
            #[kani::stub(crate::typeddata::Types::type_definition, crate::typeddata::Types::__verif_type_definition)]
            #[kani::stub(crate::typeddata::Types::type_hash, crate::typeddata::Types::__verif_type_hash)]
            #[kani::stub(crate::typeddata::Types::encode_value, crate::typeddata::Types::__verif_encode_value)]
            #[kani::stub(std::hash::RandomState::new, random_state_stub)]
            #[kani::stub(ethdigest::Digest::of, crate::__verif_common::digest_of_stub96)]
            #[kani::unwind(8)]
            fn $name() { check_struct_hash::<$m>() }
        }
    )*};
}
struct_hash_harness! {
    c08_struct_hash_m0 = 0; c08_struct_hash_m1 = 1; c08_struct_hash_m2 = 2; c08_struct_hash_m3 = 3;
    c08_struct_hash_m4 = 4; c08_struct_hash_m5 = 5; c08_struct_hash_m6 = 6; c08_struct_hash_m7 = 7;
}

// ================================================================================= C08: dependency closure of encodeType
// `Types::encode_type` with the RENDERING cut away (`core::fmt::write` writes nothing and counts its invocations): what is
// decided is the work-list / closure logic -- the part that was wrong in the original tree (defect D2). Every type that
// encode_type resolves goes through `type_definition` (here: the table look-up, which logs the index) exactly when it is
// inserted into the set of sub-types, and every sub-type is rendered by exactly one top-level `write!`. All 4^6 reference
// graphs on {A, B, P} with two members each (each member a reference to A, B, P or the leaf Z), primary type P, A or B:
//   * the first look-up is the primary type; afterwards exactly the transitively referenced types other than the primary
//     are looked up, each exactly ONCE (no type resolved twice, the primary never again, nothing unreferenced);
//   * the number of top-level renderings is 4 (primary: name, two members, closing parenthesis) + the number of sub-types.
// Not decided here: that the sub-types are emitted in name order (BTreeMap iteration, std) and the text of each definition
// (Display impls, see c08_display_*).
fn check_encode_type_closure(primary: usize) {
    let c: [u8; 6] = kani::any();
    let mut i = 0;
    while i < 6 {
        kani::assume(c[i] < 4);
        i += 1;
    }
    let name_of = |k: u8| -> String {
        let mut s = String::with_capacity(8);
        s.push(NAMES4[k as usize] as char);
        s
    };
    let mut defs = Vec::new();
    let mut t = 0;
    while t < 3 {
        defs.push((TNAMES[t], vec![
            member("x", MemberKind::Struct(name_of(c[2 * t]))),
            member("y", MemberKind::Struct(name_of(c[2 * t + 1]))),
        ]));
        t += 1;
    }
    defs.push(("Z", vec![]));
    unsafe {
        DEFS = defs;
        LOOKUP_N = 0;
        FMT_WRITES = 0;
    }
    let types = empty_types();
    let got = types.encode_type(TNAMES[primary]);
    // oracle: transitive closure over {A, B, P, Z} (index 3 = Z)
    let mut reach = [false; 4];
    let mut work = [false; 4];
    work[primary] = true;
    let mut round = 0;
    while round < 3 {
        let mut t = 0;
        while t < 3 {
            if work[t] {
                let mut m = 0;
                while m < 2 {
                    let r = c[2 * t + m] as usize;
                    if !reach[r] {
                        reach[r] = true;
                        work[r] = true;
                    }
                    m += 1;
                }
            }
            t += 1;
        }
        round += 1;
    }
    kani::cover!(reach[primary], "recursive primary type");
    kani::cover!(reach[0] && reach[1] && reach[2] && reach[3], "everything reachable");
    kani::cover!(c[2 * primary] == c[2 * primary + 1], "repeated dependency");
    kani::cover!(c[2 * primary] != c[2 * primary + 1] && c[2 * primary + 1] as usize != primary && reach[primary], "mutual recursion");
    kani::cover!(!reach[0] && !reach[1] && !reach[2], "only the leaf type referenced");
    assert!(got.is_ok(), "encodeType failed on a closed type graph");
    unsafe {
        let mut subs = 0;
        let mut t = 0;
        while t < 4 {
            if reach[t] && t != primary {
                subs += 1;
            }
            t += 1;
        }
        assert!(LOOKUP_N == 1 + subs, "encodeType resolved a type twice, resolved the primary type again, or missed a referenced type");
        assert!(LOOKUPS[0] == primary, "the primary type is resolved first");
        let mut t = 0;
        while t < 4 {
            let mut n = 0;
            let mut k = 1;
            while k < MAXLOOKUPS {
                if k < LOOKUP_N && LOOKUPS[k] == t {
                    n += 1;
                }
                k += 1;
            }
            let expected = if reach[t] && t != primary { 1 } else { 0 };
            assert!(n == expected, "set of resolved sub-types differs from the transitive closure minus the primary type");
            t += 1;
        }
        assert!(FMT_WRITES == 4 + subs, "number of rendered definitions differs from primary + sub-types");
    }
    core::mem::forget(got);
}
macro_rules! closure_harness {
    ($($name:ident = $p:expr;)*) => {$(
        types_harness! {
            #[kani::unwind(8)]
            fn $name() { check_encode_type_closure($p) }
        }
    )*};
}
closure_harness! { c08_closure_p = 2; c08_closure_a = 0; c08_closure_b = 1; }

// A struct type WITHOUT members: hashStruct = keccak256(typeHash) -- one Keccak over exactly the 32 bytes of the type hash
// (not the bare type hash); any member in the value is undeclared and refused.
crate::verif_harness! {
    #[kani::stub(crate::typeddata::Types::type_definition, crate::typeddata::Types::__verif_type_definition)]
    #[kani::stub(crate::typeddata::Types::type_hash, crate::typeddata::Types::__verif_type_hash)]
    #[kani::stub(crate::typeddata::Types::encode_value, crate::typeddata::Types::__verif_encode_value)]
    #[kani::stub(std::hash::RandomState::new, random_state_stub)]
    #[kani::stub(ethdigest::Digest::of, crate::__verif_common::digest_of_stub80)]
    #[kani::unwind(8)]
    fn c08_struct_hash_empty() {
        unsafe {
            DEFS = vec![("T", vec![])];
            TH_CALLS = 0;
            EV_CALLS = 0;
        }
        let extra: bool = kani::any();
        let mut data = JsonObject::new();
        if extra { data.insert("c".to_string(), Value::Null); }
        let types = empty_types();
        let got = types.struct_hash("T", data);
        kani::cover!(got.is_ok(), "hashed");
        kani::cover!(got.is_err(), "undeclared member refused");
        unsafe {
            match &got {
                Ok(d) => {
                    assert!(!extra, "undeclared member of a memberless struct accepted");
                    assert!(TH_CALLS == 1 && TH_KIND_OK && EV_CALLS == 0);
                    assert!(digest_calls() == 1, "hashStruct of a memberless struct is keccak256(typeHash), not the bare typeHash");
                    digest_expect80(0, &TH_OUT, &d.0);
                }
                Err(_) => {
                    assert!(extra, "memberless struct refused");
                    assert!(digest_calls() == 0);
                }
            }
        }
        core::mem::forget(got);
    }
}

// ================================================================================= C08: encodeType on a family of concrete graphs
// Symbolic graphs are out of reach (the BTreeMap of sub-types keyed by symbolic names: no result in 40 min even with the
// rendering cut away). What IS decided: a finite family of CONCRETE reference graphs -- the shapes on which the original
// defect D2 and the seeded changes depend: member orders [B, A, A] / [A, A, B] / [A, B, A], a chain, a diamond, a self-recursive
// primary type, mutual recursion through the primary type, recursion among sub-types, an array reference -- selected by a
// symbolic index, with the REAL rendering (Display, `write!`) and the real BTreeMap. This is an enumeration of shapes decided
// by the solver, not a statement about all graphs.
fn sref(name: &str) -> MemberKind {
    MemberKind::Struct(name.to_string())
}
fn aref(name: &str) -> MemberKind {
    MemberKind::Array(Box::new(MemberKind::Struct(name.to_string())), None)
}
fn concrete_graph(g: u8) -> (Vec<(&'static str, Vec<Member>)>, &'static str) {
    match g {
        // repeated dependency listed last (the order on which D2 lost `B`)
        0 => (vec![("P", vec![member("x", sref("B")), member("y", sref("A")), member("z", sref("A"))]),
                   ("A", vec![member("v", MemberKind::Bool)]), ("B", vec![member("w", MemberKind::Address)])],
              "P(B x,A y,A z)A(bool v)B(address w)"),
        1 => (vec![("P", vec![member("x", sref("A")), member("y", sref("A")), member("z", sref("B"))]),
                   ("A", vec![member("v", MemberKind::Bool)]), ("B", vec![member("w", MemberKind::Address)])],
              "P(A x,A y,B z)A(bool v)B(address w)"),
        // self-recursive primary type through an array: never repeated
        2 => (vec![("P", vec![member("next", aref("P")), member("x", sref("A"))]), ("A", vec![member("v", MemberKind::Bool)])],
              "P(P[] next,A x)A(bool v)"),
        // mutual recursion through the primary type, reached transitively
        3 => (vec![("P", vec![member("x", sref("B"))]), ("B", vec![member("y", sref("A"))]), ("A", vec![member("z", aref("P"))])],
              "P(B x)A(P[] z)B(A y)"),
        // diamond: C referenced twice through different sub-types, emitted once; name order A, B, C
        4 => (vec![("P", vec![member("x", sref("B")), member("y", sref("A"))]), ("A", vec![member("c", sref("C"))]),
                   ("B", vec![member("c", sref("C"))]), ("C", vec![member("v", MemberKind::Uint(256))])],
              "P(B x,A y)A(C c)B(C c)C(uint256 v)"),
        // recursion among sub-types only; an unreferenced type (Z) is not emitted
        5 => (vec![("P", vec![member("x", sref("A"))]), ("A", vec![member("b", sref("B"))]), ("B", vec![member("a", aref("A"))]),
                   ("Z", vec![member("v", MemberKind::Bool)])],
              "P(A x)A(B b)B(A[] a)"),
        // no references at all
        _ => (vec![("P", vec![member("v", MemberKind::Bytes(Some(32))), member("s", MemberKind::String)])], "P(bytes32 v,string s)"),
    }
}
fn check_encode_type_concrete<const LO: u8, const HI: u8>() {
    let g: u8 = kani::any();
    kani::assume(g >= LO && g <= HI);
    let (defs, expected) = concrete_graph(g);
    unsafe { DEFS = defs; }
    let types = empty_types();
    let got = types.encode_type("P");
    kani::cover!(g == LO, "first graph of the family");
    kani::cover!(g == HI, "last graph of the family");
    match &got {
        Ok(text) => {
            assert!(text.len() == expected.len(), "encodeType: wrong set of referenced types or wrong rendering (length differs)");
            assert!(bytes_eq_sym::<3>(text.as_bytes(), expected.as_bytes()), "encodeType differs from primary + name-sorted transitive dependencies");
        }
        Err(_) => panic!("encodeType failed on a closed type graph"),
    }
    core::mem::forget(got);
}
types_harness_cap! { #[kani::unwind(8)] fn c08_encode_type_concrete_0() { check_encode_type_concrete::<0, 0>() } }
types_harness_cap! { #[kani::unwind(8)] fn c08_encode_type_concrete_all() { check_encode_type_concrete::<0, 6>() } }
