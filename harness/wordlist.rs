//! Stubs for the BIP-0039 word list (spliced into src/mnemonic/wordlist.rs). The 2048-entry table is
//! parsed at run time behind a OnceLock (13 KB of text): out of reach for the solver and not what the
//! properties are about. Under Kani the list is abstracted to its contract "word(i) is the i-th
//! word, search(word(i)) = Some(i), anything else None"; that contract is validated natively against
//! the real list on every run (driver precheck `wordlist_contract`).
#![allow(dead_code, static_mut_refs)]
use super::*;

/// Indices the `search` stub hands out, in call order (2048 and above = "not in the list").
pub static mut SEARCH_IDX: [u16; 24] = [0; 24];
pub static mut SEARCH_POS: usize = 0;
/// Indices the `word` stub was asked for, in call order.
pub static mut WORD_LOG: [usize; 24] = [0; 24];
pub static mut WORD_POS: usize = 0;

impl<'a> Wordlist<'a> {
    pub fn __verif_search(&self, _word: impl AsRef<str>) -> Option<usize> {
        unsafe {
            let k = SEARCH_POS;
            assert!(k < 24, "more word look-ups than words");
            SEARCH_POS = k + 1;
            let i = SEARCH_IDX[k] as usize;
            if i < WORD_COUNT {
                Some(i)
            } else {
                None
            }
        }
    }

    pub fn __verif_word(&'a self, index: usize) -> &'a str {
        assert!(index < WORD_COUNT, "invalid word index");
        unsafe {
            let k = WORD_POS;
            assert!(k < 24, "more words printed than a mnemonic can have");
            WORD_LOG[k] = index;
            WORD_POS = k + 1;
        }
        "w"
    }
}

pub fn __verif_for_language(_language: Language) -> &'static Wordlist<'static> {
    Box::leak(Box::new(Wordlist(Vec::new())))
}
