//! C19 / C17: Kani harnesses for `cmd::permissive_hex` (binary crate; spliced into src/cmd.rs).
use super::*;

fn hex_val(c: u8) -> Option<u8> {
    match c {
        b'0'..=b'9' => Some(c - b'0'),
        b'a'..=b'f' => Some(c - b'a' + 10),
        b'A'..=b'F' => Some(c - b'A' + 10),
        _ => None,
    }
}

fn ascii_ws(c: u8) -> bool {
    matches!(c, b' ' | b'\t' | b'\n' | 0x0b | 0x0c | b'\r')
}

/// Specification: drop whitespace, drop one optional leading "0x", then an even number of hex
/// digits of either case -> those bytes; anything else is an error.
/// `text` is ASCII; `skip` marks positions that belong to a (multi-byte) non-ASCII whitespace.
fn spec_permissive<const N: usize>(text: &[u8], skip: &[bool]) -> Option<([u8; N], usize)> {
    let mut kept = [0u8; N];
    let mut nk = 0;
    let mut i = 0;
    while i < text.len() {
        if !skip[i] && !ascii_ws(text[i]) {
            kept[nk] = text[i];
            nk += 1;
        }
        i += 1;
    }
    let start = if nk >= 2 && kept[0] == b'0' && kept[1] == b'x' { 2 } else { 0 };
    if (nk - start) % 2 != 0 {
        return None;
    }
    let mut out = [0u8; N];
    let mut no = 0;
    let mut i = start;
    while i < nk {
        let hi = hex_val(kept[i])?;
        let lo = hex_val(kept[i + 1])?;
        out[no] = (hi << 4) | lo;
        no += 1;
        i += 2;
    }
    Some((out, no))
}

fn check_against_spec<const N: usize>(text: &[u8], skip: &[bool]) -> Option<usize> {
    let s = unsafe { core::str::from_utf8_unchecked(text) };
    let got = permissive_hex(s);
    let spec = spec_permissive::<N>(text, skip);
    let r = match (&got, &spec) {
        (Ok(bytes), Some((exp, n))) => {
            assert!(bytes.len() == *n, "decoded length differs");
            let mut i = 0;
            while i < *n {
                assert!(bytes[i] == exp[i], "decoded byte differs");
                i += 1;
            }
            Some(*n)
        }
        (Err(_), None) => None,
        (Ok(_), None) => panic!("malformed hex input accepted"),
        (Err(_), Some(_)) => panic!("well-formed hex input rejected"),
    };
    core::mem::forget(got);
    r
}

// Every ASCII string of up to 6 bytes.
hdwallet::verif_harness! {
    #[kani::unwind(9)]
    fn c19_permissive_hex_ascii6() {
        let text: [u8; 6] = kani::any();
        let n: usize = kani::any();
        kani::assume(n <= 6);
        let mut i = 0;
        while i < 6 {
            kani::assume(text[i] < 0x80);
            i += 1;
        }
        let skip = [false; 6];
        let r = check_against_spec::<6>(&text[..n], &skip[..n]);
        kani::cover!(r == Some(3), "three bytes decoded");
        kani::cover!(r == Some(2) && n == 6 && text[1] == b'x', "prefixed, two bytes");
        kani::cover!(r == Some(1) && n == 6, "one byte among whitespace");
        kani::cover!(r == Some(0) && n == 2, "empty after the prefix");
        kani::cover!(r.is_none() && n == 3, "odd digit count rejected");
    }
}

// Unicode whitespace (U+2003 EM SPACE, three bytes) at a symbolic position among four ASCII bytes.
hdwallet::verif_harness! {
    #[kani::unwind(10)]
    fn c19_permissive_hex_unicode_ws() {
        let a: [u8; 4] = kani::any();
        let pos: usize = kani::any();
        kani::assume(pos <= 4);
        let mut text = [0u8; 7];
        let mut skip = [false; 7];
        let mut i = 0;
        let mut o = 0;
        while i <= 4 {
            if i == pos {
                text[o] = 0xe2;
                text[o + 1] = 0x80;
                text[o + 2] = 0x83;
                skip[o] = true;
                skip[o + 1] = true;
                skip[o + 2] = true;
                o += 3;
            }
            if i < 4 {
                kani::assume(a[i] < 0x80);
                text[o] = a[i];
                o += 1;
            }
            i += 1;
        }
        let r = check_against_spec::<7>(&text, &skip);
        kani::cover!(r == Some(2) && pos == 2, "whitespace between two bytes");
        kani::cover!(r == Some(1) && pos == 1, "whitespace inside the prefix");
        kani::cover!(r.is_none(), "rejected");
    }
}

// hex decode . hex encode = id: the text `hex encode` prints ("0x" + hex::encode(data) + newline)
// decodes to the original bytes, and consists of two lower-case digits per byte.
fn check_roundtrip<const L: usize>() {
    let data: [u8; L] = kani::any();
    let encoded = ::hex::encode(data);
    assert!(encoded.len() == 2 * L);
    let eb = encoded.as_bytes();
    let mut i = 0;
    while i < L {
        let hi = b"0123456789abcdef"[(data[i] >> 4) as usize];
        let lo = b"0123456789abcdef"[(data[i] & 0xf) as usize];
        assert!(eb[2 * i] == hi && eb[2 * i + 1] == lo, "hex encode is not two lower-case digits per byte");
        i += 1;
    }
    let mut text = String::from("0x");
    text.push_str(&encoded);
    text.push('\n');
    let got = permissive_hex(&text);
    kani::cover!(true, "reached");
    match &got {
        Ok(bytes) => {
            assert!(bytes.len() == L);
            let mut i = 0;
            while i < L {
                assert!(bytes[i] == data[i], "round trip changed a byte");
                i += 1;
            }
        }
        Err(_) => panic!("encoded text rejected by decode"),
    }
    core::mem::forget(got);
}
hdwallet::verif_harness! {
    #[kani::unwind(6)]
    fn c19_roundtrip_0() { check_roundtrip::<0>() }
}
hdwallet::verif_harness! {
    #[kani::unwind(8)]
    fn c19_roundtrip_1() { check_roundtrip::<1>() }
}
hdwallet::verif_harness! {
    #[kani::unwind(12)]
    fn c19_roundtrip_3() { check_roundtrip::<3>() }
}

// ------------------------------------------------------------------------------------------------
// hdwallet's own part of the decoder (whitespace filter, optional prefix) with the dependency's
// `hex::decode` abstracted: the stub records the text it is handed and returns an arbitrary verdict.
static mut HEX_IN: [u8; 16] = [0; 16];
static mut HEX_IN_LEN: usize = 0;
static mut HEX_CALLS: usize = 0;
static mut HEX_OK: bool = false;
static mut HEX_OUT: [u8; 2] = [0; 2];
fn hex_decode_stub<T: AsRef<[u8]>>(data: T) -> core::result::Result<Vec<u8>, ::hex::FromHexError> {
    let d = data.as_ref();
    unsafe {
        HEX_CALLS += 1;
        HEX_IN_LEN = d.len();
        assert!(d.len() <= 16);
        hdwallet::__verif_common::copy_bytes_sym::<1>(&mut HEX_IN, d);
        let ok: bool = kani::any();
        HEX_OK = ok;
        if ok {
            let out: [u8; 2] = kani::any();
            HEX_OUT = out;
            Ok(out.to_vec())
        } else {
            Err(::hex::FromHexError::OddLength)
        }
    }
}

fn check_filter(text: &[u8], skip: &[bool]) {
    if !hdwallet::__verif_common::stubs_active() {
        // native replay: the real decoder runs, so the recorder is empty; confirm against the end-to-end specification
        check_against_spec::<16>(text, skip);
        return;
    }
    let s = unsafe { core::str::from_utf8_unchecked(text) };
    unsafe { HEX_CALLS = 0; }
    let got = permissive_hex(s);
    // expected text handed to the decoder
    let mut kept = [0u8; 16];
    let mut nk = 0;
    let mut i = 0;
    while i < text.len() {
        if !skip[i] && !ascii_ws(text[i]) {
            kept[nk] = text[i];
            nk += 1;
        }
        i += 1;
    }
    let start = if nk >= 2 && kept[0] == b'0' && kept[1] == b'x' { 2 } else { 0 };
    unsafe {
        assert!(HEX_CALLS == 1, "exactly one decode of the filtered text");
        assert!(HEX_IN_LEN == nk - start, "text handed to the decoder has the wrong length");
        assert!(hdwallet::__verif_common::bytes_eq_sym::<1>(&HEX_IN[..nk - start], &kept[start..nk]),
            "whitespace filter / prefix stripping changed the digits");
        kani::cover!(start == 2 && nk > 2, "prefix stripped");
        kani::cover!(start == 0 && nk == text.len() && nk > 0, "nothing to strip");
        kani::cover!(nk + 2 <= text.len(), "whitespace removed");
        match &got {
            Ok(bytes) => {
                assert!(HEX_OK, "decoder error swallowed");
                assert!(bytes.len() == 2 && bytes[0] == HEX_OUT[0] && bytes[1] == HEX_OUT[1], "decoded bytes changed");
            }
            Err(_) => assert!(!HEX_OK, "decoder result dropped"),
        }
    }
    core::mem::forget(got);
}

fn check_filter_ascii<const N: usize>() {
    let text: [u8; N] = kani::any();
    let mut i = 0;
    while i < N {
        kani::assume(text[i] < 0x80);
        i += 1;
    }
    check_filter(&text, &[false; N]);
}
macro_rules! filter_harness {
    ($($name:ident = $n:expr, $u:expr;)*) => {$(
        hdwallet::verif_harness! {
            #[kani::stub(::hex::decode, hex_decode_stub)]
            #[kani::unwind($u)]
            fn $name() { check_filter_ascii::<$n>() }
        }
    )*};
}
filter_harness! {
    c19_filter_ascii_0 = 0, 4; c19_filter_ascii_2 = 2, 5; c19_filter_ascii_3 = 3, 6; c19_filter_ascii_4 = 4, 7;
    c19_filter_ascii_5 = 5, 8; c19_filter_ascii_6 = 6, 9; c19_filter_ascii_8 = 8, 11;
}

// Unicode whitespace (U+2003, three bytes) at a symbolic position among four ASCII bytes
hdwallet::verif_harness! {
    #[kani::stub(::hex::decode, hex_decode_stub)]
    #[kani::unwind(10)]
    fn c19_filter_unicode_ws() {
        let a: [u8; 4] = kani::any();
        let pos: usize = kani::any();
        kani::assume(pos <= 4);
        let mut text = [0u8; 7];
        let mut skip = [false; 7];
        let mut i = 0;
        let mut o = 0;
        while i <= 4 {
            if i == pos {
                text[o] = 0xe2;
                text[o + 1] = 0x80;
                text[o + 2] = 0x83;
                skip[o] = true;
                skip[o + 1] = true;
                skip[o + 2] = true;
                o += 3;
            }
            if i < 4 {
                kani::assume(a[i] < 0x80);
                text[o] = a[i];
                o += 1;
            }
            i += 1;
        }
        check_filter(&text, &skip);
    }
}

// ------------------------------------------------------------------------------------------------
// The same queries with String's growth policy replaced by a fixed pre-allocation (common.rs:
// string_new_stub / string_push_stub): the filter closure, the prefix handling and the decoder are real.
macro_rules! filter_cap_harness {
    ($($name:ident = $n:expr, $u:expr;)*) => {$(
        hdwallet::verif_harness! {
            #[kani::stub(::hex::decode, hex_decode_stub)]
            #[kani::stub(alloc::string::String::new, hdwallet::__verif_common::string_new_stub)]
            #[kani::stub(alloc::string::String::push, hdwallet::__verif_common::string_push_stub)]
            #[kani::unwind($u)]
            fn $name() { check_filter_ascii::<$n>() }
        }
    )*};
}
filter_cap_harness! {
    c19_filtercap_ascii_3 = 3, 6; c19_filtercap_ascii_4 = 4, 7; c19_filtercap_ascii_6 = 6, 9;
    c19_filtercap_ascii_8 = 8, 11; c19_filtercap_ascii_12 = 12, 15;
}
hdwallet::verif_harness! {
    #[kani::stub(alloc::string::String::new, hdwallet::__verif_common::string_new_stub)]
    #[kani::stub(alloc::string::String::push, hdwallet::__verif_common::string_push_stub)]
    #[kani::unwind(9)]
    fn c19_hexcap_ascii6() {
        let text: [u8; 6] = kani::any();
        let n: usize = kani::any();
        kani::assume(n <= 6);
        let mut i = 0;
        while i < 6 {
            kani::assume(text[i] < 0x80);
            i += 1;
        }
        let skip = [false; 6];
        let r = check_against_spec::<6>(&text[..n], &skip[..n]);
        kani::cover!(r == Some(3), "three bytes decoded");
        kani::cover!(r == Some(2) && n == 6 && text[1] == b'x', "prefixed, two bytes");
        kani::cover!(r == Some(1) && n == 6, "one byte among whitespace");
        kani::cover!(r == Some(0) && n == 2, "empty after the prefix");
        kani::cover!(r.is_none() && n == 3, "odd digit count rejected");
    }
}

macro_rules! cap_harness {
    ($(#[$m:meta])* fn $name:ident() $body:block) => {
        hdwallet::verif_harness! {
            #[kani::stub(alloc::string::String::new, hdwallet::__verif_common::string_new_stub)]
            #[kani::stub(alloc::string::String::push, hdwallet::__verif_common::string_push_stub)]
            #[kani::stub(alloc::string::String::push_str, hdwallet::__verif_common::string_push_str_stub)]
            $(#[$m])*
            fn $name() $body
        }
    };
}

filter_cap_harness! { c19_filtercap_ascii_16 = 16, 19; }

// Every ASCII string of 0..=4 bytes through the real decoder (the cheaper sibling of c19_hexcap_ascii6).
cap_harness! {
    #[kani::unwind(7)]
    fn c19_hexcap_ascii4() {
        let text: [u8; 4] = kani::any();
        let n: usize = kani::any();
        kani::assume(n <= 4);
        let mut i = 0;
        while i < 4 {
            kani::assume(text[i] < 0x80);
            i += 1;
        }
        let skip = [false; 4];
        let r = check_against_spec::<4>(&text[..n], &skip[..n]);
        kani::cover!(r == Some(2), "two bytes decoded");
        kani::cover!(r == Some(1) && n == 4 && text[1] == b'x', "prefixed, one byte");
        kani::cover!(r == Some(1) && n == 4 && text[1] != b'x', "one byte among whitespace");
        kani::cover!(r == Some(0) && n == 2, "empty after the prefix");
        kani::cover!(r.is_none() && n == 3, "odd digit count rejected");
    }
}

// One non-ASCII character -- a symbolic choice of four Unicode white-space characters (U+0085, U+00A0, U+2003,
// U+3000) and two characters that are NOT white space (U+00E9, U+200B ZERO WIDTH SPACE) -- at a symbolic
// position among five symbolic ASCII bytes, real decoder: white space is ignored anywhere (also inside the
// prefix and between the two digits of a byte), anything else that is not a hex digit is refused.
const PALETTE: [([u8; 3], usize, bool); 6] = [
    ([0xc2, 0x85, 0], 2, true),
    ([0xc2, 0xa0, 0], 2, true),
    ([0xe2, 0x80, 0x83], 3, true),
    ([0xe3, 0x80, 0x80], 3, true),
    ([0xc3, 0xa9, 0], 2, false),
    ([0xe2, 0x80, 0x8b], 3, false),
];
fn build_unicode<const A: usize, const N: usize>() -> ([u8; N], [bool; N], usize, usize, usize, bool) {
    let a: [u8; A] = kani::any();
    let pos: usize = kani::any();
    let which: usize = kani::any();
    kani::assume(pos <= A && which < 6);
    let (enc, el, ws) = PALETTE[which];
    let mut text = [0u8; N]; // N = A + 3
    let mut skip = [false; N];
    let mut i = 0;
    let mut o = 0;
    while i <= A {
        if i == pos {
            let mut k = 0;
            while k < 3 {
                if k < el {
                    text[o] = enc[k];
                    skip[o] = ws;
                    o += 1;
                }
                k += 1;
            }
        }
        if i < A {
            kani::assume(a[i] < 0x80);
            text[o] = a[i];
            o += 1;
        }
        i += 1;
    }
    (text, skip, o, pos, el, ws)
}
cap_harness! {
    #[kani::unwind(10)]
    fn c19_hexcap_unicode() {
        let (text, skip, o, pos, el, ws) = build_unicode::<5, 8>();
        let r = check_against_spec::<8>(&text[..o], &skip[..o]);
        kani::cover!(r == Some(2) && ws && pos == 2, "white space right after the prefix");
        kani::cover!(r == Some(1) && ws && pos == 1, "white space inside the prefix");
        kani::cover!(r.is_some() && ws && el == 2, "two-byte white space ignored");
        kani::cover!(r.is_some() && ws && el == 3, "three-byte white space ignored");
        kani::cover!(r.is_none() && !ws, "non-ASCII character that is not white space refused");
        assert!(ws || r.is_none(), "non-hex character accepted");
    }
}
cap_harness! {
    #[kani::stub(::hex::decode, hex_decode_stub)]
    #[kani::unwind(14)]
    fn c19_filtercap_unicode() {
        let (text, skip, o, _pos, _el, _ws) = build_unicode::<9, 12>();
        check_filter(&text[..o], &skip[..o]);
    }
}

// hex decode . hex encode = id, and decoding is insensitive to layout: the text `hex encode` prints
// ("0x" + hex::encode(data) + newline) and every respelling of it -- each digit in either case, the prefix
// present or absent, one white-space character inserted at any position -- decodes to the original bytes.
fn check_respell<const L: usize, const N: usize>() {
    let data: [u8; L] = kani::any();
    let encoded = ::hex::encode(data);
    assert!(encoded.len() == 2 * L, "hex encode: length is not two digits per byte");
    let eb = encoded.as_bytes();
    let mut i = 0;
    while i < L {
        let hi = b"0123456789abcdef"[(data[i] >> 4) as usize];
        let lo = b"0123456789abcdef"[(data[i] & 0xf) as usize];
        assert!(eb[2 * i] == hi && eb[2 * i + 1] == lo, "hex encode is not two lower-case digits per byte");
        i += 1;
    }
    let upper: [bool; N] = kani::any();
    let prefix: bool = kani::any();
    let gap: usize = kani::any();
    let gap_char: u8 = kani::any();
    kani::assume(matches!(gap_char, b' ' | b'\t' | b'\n' | b'\r' | 0x0b | 0x0c));
    // N = 2L; the text has at most 2 + 2L + 2 bytes
    let mut text = String::new();
    let mut count = 0;
    if prefix {
        if gap == 0 { text.push(gap_char as char); }
        text.push('0');
        if gap == 1 { text.push(gap_char as char); }
        text.push('x');
        count = 2;
    }
    let mut i = 0;
    while i < 2 * L {
        if gap == count + i { text.push(gap_char as char); }
        let c = eb[i];
        text.push((if upper[i] { c.to_ascii_uppercase() } else { c }) as char);
        i += 1;
    }
    text.push('\n');
    let got = permissive_hex(&text);
    kani::cover!(prefix && gap == 1, "white space inside the prefix");
    kani::cover!(!prefix, "no prefix");
    kani::cover!(L == 0 || (upper[0] && !upper[1]), "mixed case");
    kani::cover!(gap > 2 + 2 * L, "plain `hex encode` output (no inserted white space)");
    match &got {
        Ok(bytes) => {
            assert!(bytes.len() == L, "round trip changed the length");
            let mut i = 0;
            while i < L {
                assert!(bytes[i] == data[i], "round trip changed a byte");
                i += 1;
            }
        }
        Err(_) => panic!("a spelling of the encoded text was rejected by decode"),
    }
    core::mem::forget(got);
}
cap_harness! { #[kani::unwind(6)] fn c19_respell_0() { check_respell::<0, 0>() } }
cap_harness! { #[kani::unwind(8)] fn c19_respell_1() { check_respell::<1, 2>() } }
cap_harness! { #[kani::unwind(10)] fn c19_respell_2() { check_respell::<2, 4>() } }
cap_harness! { #[kani::unwind(12)] fn c19_respell_3() { check_respell::<3, 6>() } }
cap_harness! { #[kani::unwind(14)] fn c19_respell_4() { check_respell::<4, 8>() } }
cap_harness! { #[kani::unwind(22)] fn c19_respell_8() { check_respell::<8, 16>() } }

// ================================================================================= C16: account selection
// `AccountOptions::private_key` -- the one function through which EVERY command (address, export, public-key, sign ...)
// obtains its key -- with the three things it wires together as recorders: `Mnemonic::seed` (C02), `hdk::Path::for_index`
// (C14) and `hdk::derive_slice` (C03). Decided: the seed is taken from THIS mnemonic with THIS password; without --hd-path the
// key is derived along the path `for_index(account_index)` returns (account index symbolic, all 2^64 values), with --hd-path
// along the parsed path whatever `for_index` would say; errors of either step are passed on and nothing is derived then;
// the key (or error) of the derivation is returned unchanged.
static mut SEED_CALLS: usize = 0;
static mut SEED_MNEMONIC_OK: bool = false;
static mut SEED_PW_LEN: usize = 0;
static mut SEED_PW: [u8; 16] = [0; 16];
static mut FI_CALLS: usize = 0;
static mut FI_INDEX: usize = 0;
static mut FI_FAILS: bool = false;
static mut DV_CALLS: usize = 0;
static mut DV_SEED_OK: bool = false;
static mut DV_COMPONENTS: usize = 0;
static mut DV_FIRST: u32 = 0;
static mut DV_FIRST_HARDENED: bool = false;
static mut DV_FAILS: bool = false;
static mut THE_MNEMONIC: *const Mnemonic = core::ptr::null();
const SEED_BYTES: [u8; 64] = [0x5e; 64];

fn seed_stub<P: AsRef<str>>(mnemonic: &Mnemonic, password: P) -> hdwallet::mnemonic::Seed {
    unsafe {
        SEED_CALLS += 1;
        SEED_MNEMONIC_OK = core::ptr::eq(mnemonic, THE_MNEMONIC);
        let pw = password.as_ref().as_bytes();
        SEED_PW_LEN = pw.len();
        assert!(pw.len() <= 16);
        hdwallet::__verif_common::copy_bytes_sym::<1>(&mut SEED_PW, pw);
        core::mem::transmute::<[u8; 64], hdwallet::mnemonic::Seed>(SEED_BYTES)
    }
}
fn for_index_stub(index: usize) -> Result<hdk::Path> {
    unsafe {
        FI_CALLS += 1;
        FI_INDEX = index;
        if FI_FAILS {
            return Err(anyhow::Error::msg("account index out of range"));
        }
        // the path [Hardened(77)] stands for "whatever for_index returns"
        Ok(core::mem::transmute::<Vec<hdk::Component>, hdk::Path>(vec![hdk::Component::Hardened(77)]))
    }
}
fn derive_slice_stub(seed: &[u8], path: &hdk::Path) -> Result<PrivateKey> {
    unsafe {
        DV_CALLS += 1;
        DV_SEED_OK = seed.len() == 64 && hdwallet::__verif_common::bytes_eq(seed, &SEED_BYTES);
        let mut n = 0;
        for c in path.components() {
            if n == 0 {
                match c {
                    hdk::Component::Hardened(v) => { DV_FIRST = v; DV_FIRST_HARDENED = true; }
                    hdk::Component::Normal(v) => { DV_FIRST = v; DV_FIRST_HARDENED = false; }
                }
            }
            n += 1;
        }
        DV_COMPONENTS = n;
        if DV_FAILS {
            return Err(anyhow::Error::msg("invalid child key"));
        }
        PrivateKey::new([0x11; 32])
    }
}

hdwallet::verif_harness_nofmt! {
    #[kani::stub(hdwallet::mnemonic::Mnemonic::seed, seed_stub)]
    #[kani::stub(hdwallet::hdk::Path::for_index, for_index_stub)]
    #[kani::stub(hdwallet::hdk::derive_slice, derive_slice_stub)]
    #[kani::unwind(8)]
    fn c16_account_default() { account_selection_body::<0>() }
}
hdwallet::verif_harness_nofmt! {
    #[kani::stub(hdwallet::mnemonic::Mnemonic::seed, seed_stub)]
    #[kani::stub(hdwallet::hdk::Path::for_index, for_index_stub)]
    #[kani::stub(hdwallet::hdk::derive_slice, derive_slice_stub)]
    #[kani::unwind(8)]
    fn c16_account_hd_path() { account_selection_body::<1>() }
}
hdwallet::verif_harness_nofmt! {
    #[kani::stub(hdwallet::mnemonic::Mnemonic::seed, seed_stub)]
    #[kani::stub(hdwallet::hdk::Path::for_index, for_index_stub)]
    #[kani::stub(hdwallet::hdk::derive_slice, derive_slice_stub)]
    #[kani::unwind(8)]
    fn c16_account_bad_path() { account_selection_body::<2>() }
}
fn account_selection_body<const WHICH: u8>() {
    let pw: [u8; 3] = kani::any();
    let pw_len: usize = kani::any();
    kani::assume(pw_len <= 3 && pw[0] < 0x80 && pw[1] < 0x80 && pw[2] < 0x80);
    let password = match pw_len {
        0 => String::new(),
        1 => unsafe { String::from_utf8_unchecked(vec![pw[0]]) },
        2 => unsafe { String::from_utf8_unchecked(vec![pw[0], pw[1]]) },
        _ => unsafe { String::from_utf8_unchecked(vec![pw[0], pw[1], pw[2]]) },
    };
    let account_index: usize = kani::any();
    let which_path: u8 = WHICH;
    // no --hd-path, a well-formed one (m/9) or a malformed one (no root): one query each
    let hd_path = match which_path {
        0 => None,
        1 => Some("m/9".to_string()),
        _ => Some("9".to_string()),
    };
    let options = AccountOptions {
        mnemonic: unsafe { core::mem::zeroed() },
        password,
        account_index,
        hd_path,
    };
    unsafe {
        THE_MNEMONIC = &options.mnemonic;
        FI_FAILS = kani::any();
        DV_FAILS = kani::any();
    }
    let got = options.private_key();
    kani::cover!(which_path == 2 || got.is_ok(), "key derived");
    kani::cover!(got.is_err(), "error passed on");
    kani::cover!(account_index > u32::MAX as usize, "account index beyond 32 bits");
    kani::cover!(pw_len == 3 && pw[2] == b' ', "three-character password ending in a space");
    unsafe {
        assert!(SEED_CALLS == 1 && SEED_MNEMONIC_OK, "the seed is not taken from the given mnemonic");
        assert!(SEED_PW_LEN == pw_len, "the seed is not salted with the given password");
        assert!(pw_len < 1 || SEED_PW[0] == pw[0]);
        assert!(pw_len < 2 || SEED_PW[1] == pw[1]);
        assert!(pw_len < 3 || SEED_PW[2] == pw[2]);
        let path_ok = match which_path {
            0 => {
                assert!(FI_CALLS == 1 && FI_INDEX == account_index, "default path is not for_index(account_index)");
                !FI_FAILS
            }
            // (whether for_index is consulted at all when --hd-path is given is not specified; its verdict must not matter)
            1 => true,
            _ => false,
        };
        if !path_ok {
            assert!(got.is_err(), "path error swallowed");
            assert!(DV_CALLS == 0, "a key was derived although the path is invalid");
        } else {
            assert!(DV_CALLS == 1 && DV_SEED_OK, "the key is not derived from the mnemonic's seed");
            assert!(DV_COMPONENTS == 1, "derivation path");
            if which_path == 0 {
                assert!(DV_FIRST == 77 && DV_FIRST_HARDENED, "the key is not derived along the account-index path");
            } else {
                assert!(DV_FIRST == 9 && !DV_FIRST_HARDENED, "the key is not derived along the given --hd-path");
            }
            assert!(got.is_ok() == !DV_FAILS, "result of the derivation not returned unchanged");
        }
    }
    core::mem::forget(got);
}
