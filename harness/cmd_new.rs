//! C18 / C17: Kani harnesses for the vanity prefix of `cmd::new` (binary crate; spliced into
//! src/cmd/new.rs).
use super::*;

fn hex_val(c: u8) -> Option<u8> {
    match c {
        b'0'..=b'9' => Some(c - b'0'),
        b'a'..=b'f' => Some(c - b'a' + 10),
        b'A'..=b'F' => Some(c - b'A' + 10),
        _ => None,
    }
}

fn nibble_of(addr: &[u8; 20], k: usize) -> u8 {
    if k % 2 == 0 {
        addr[k / 2] >> 4
    } else {
        addr[k / 2] & 0xf
    }
}

// Every ASCII string of up to MAX bytes as prefix text, every 20-byte address:
//  * accepted iff "0x" followed by hex digits of either case (the bare "0x" is don't-care),
//  * an accepted prefix matches an address iff nibble k of the address equals digit k, for all k.
fn check_prefix<const MAX: usize>() {
    let text: [u8; MAX] = kani::any();
    let n: usize = kani::any();
    kani::assume(n <= MAX);
    let mut i = 0;
    while i < MAX {
        kani::assume(text[i] < 0x80);
        i += 1;
    }
    let addr: [u8; 20] = kani::any();
    let s = unsafe { core::str::from_utf8_unchecked(&text[..n]) };
    let got = Prefix::from_str(s);

    let mut well_formed = n >= 2 && text[0] == b'0' && text[1] == b'x';
    let mut digits = [0u8; MAX];
    let mut nd = 0;
    if well_formed {
        let mut i = 2;
        while i < n {
            match hex_val(text[i]) {
                Some(d) => {
                    digits[nd] = d;
                    nd += 1;
                }
                None => well_formed = false,
            }
            i += 1;
        }
    }
    kani::cover!(well_formed && nd == MAX - 2, "longest prefix accepted");
    kani::cover!(well_formed && nd == 1 && text[2] == b'C', "single upper-case digit");
    kani::cover!(well_formed && nd == 3 && text[4] == b'b', "odd digit count");
    kani::cover!(!well_formed && n > 2 && text[0] == b'0' && text[1] == b'x', "bad digit");
    kani::cover!(!well_formed && n == 1, "too short");
    if !well_formed {
        assert!(got.is_err(), "a prefix that is not 0x-hex was accepted");
    } else if nd > 0 {
        match &got {
            Ok(p) => {
                let mut expect = true;
                let mut k = 0;
                while k < nd {
                    if nibble_of(&addr, k) != digits[k] {
                        expect = false;
                    }
                    k += 1;
                }
                let m = p.matches(Address(addr));
                kani::cover!(m && nd == MAX - 2, "longest prefix matches");
                kani::cover!(!m, "does not match");
                assert!(m == expect, "prefix match differs from the nibble-wise comparison");
            }
            Err(_) => panic!("hexadecimal prefix rejected"),
        }
    }
    core::mem::forget(got);
}

hdwallet::verif_harness! {
    #[kani::unwind(9)]
    fn c18_prefix_5() { check_prefix::<5>() }
}
hdwallet::verif_harness! {
    #[kani::unwind(11)]
    fn c18_prefix_7() { check_prefix::<7>() }
}

// A prefix that spells a whole address (40 digits) and one digit more: matching must not read past
// the address or accept an over-long prefix.
hdwallet::verif_harness! {
    #[kani::unwind(46)]
    fn c18_prefix_full_address() {
        let extra: bool = kani::any();
        let addr: [u8; 20] = kani::any();
        let other: [u8; 20] = kani::any();
        let mut text = [b'0'; 43];
        text[1] = b'x';
        let mut k = 0;
        while k < 40 {
            let d = nibble_of(&addr, k);
            let upper: bool = kani::any();
            text[2 + k] = if d < 10 { b'0' + d } else if upper { b'A' + d - 10 } else { b'a' + d - 10 };
            k += 1;
        }
        let n = if extra { 43 } else { 42 };
        let s = unsafe { core::str::from_utf8_unchecked(&text[..n]) };
        let got = Prefix::from_str(s);
        kani::cover!(extra, "41 digits");
        kani::cover!(!extra, "40 digits");
        match &got {
            Ok(p) => {
                if extra {
                    assert!(!p.matches(Address(addr)), "a 41-digit prefix cannot match a 40-digit address");
                } else {
                    assert!(p.matches(Address(addr)), "the address must match its own digits");
                    let mut same = true;
                    let mut i = 0;
                    while i < 20 {
                        if addr[i] != other[i] {
                            same = false;
                        }
                        i += 1;
                    }
                    assert!(p.matches(Address(other)) == same);
                }
            }
            Err(_) => panic!("hexadecimal prefix rejected"),
        }
        core::mem::forget(got);
    }
}
