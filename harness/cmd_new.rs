//! C18 / C17: Kani harnesses for the vanity prefix of `cmd::new` (binary crate; spliced into
//! src/cmd/new.rs).
use super::*;

fn hex_val(c: u8) -> Option<u8> {
    match c {
        b'0'..=b'9' => Some(c - b'0'),
        b'a'..=b'f' => Some(c - b'a' + 10),
        b'A'..=b'F' => Some(c - b'A' + 10),
        _ => None,
    }
}

fn nibble_of(addr: &[u8; 20], k: usize) -> u8 {
    if k % 2 == 0 {
        addr[k / 2] >> 4
    } else {
        addr[k / 2] & 0xf
    }
}

// Every ASCII string of up to MAX bytes as prefix text, every 20-byte address:
//  * accepted iff "0x" followed by hex digits of either case (the bare "0x" is don't-care),
//  * an accepted prefix matches an address iff nibble k of the address equals digit k, for all k.
fn check_prefix<const MAX: usize>() {
    let text: [u8; MAX] = kani::any();
    let n: usize = kani::any();
    kani::assume(n <= MAX);
    let mut i = 0;
    while i < MAX {
        kani::assume(text[i] < 0x80);
        i += 1;
    }
    let addr: [u8; 20] = kani::any();
    let s = unsafe { core::str::from_utf8_unchecked(&text[..n]) };
    let got = Prefix::from_str(s);

    let mut well_formed = n >= 2 && text[0] == b'0' && text[1] == b'x';
    let mut digits = [0u8; MAX];
    let mut nd = 0;
    if well_formed {
        let mut i = 2;
        while i < n {
            match hex_val(text[i]) {
                Some(d) => {
                    digits[nd] = d;
                    nd += 1;
                }
                None => well_formed = false,
            }
            i += 1;
        }
    }
    kani::cover!(well_formed && nd == MAX - 2, "longest prefix accepted");
    kani::cover!(well_formed && nd == 1 && text[2] == b'C', "single upper-case digit");
    kani::cover!(well_formed && nd == 3 && text[4] == b'b', "odd digit count");
    kani::cover!(!well_formed && n > 2 && text[0] == b'0' && text[1] == b'x', "bad digit");
    kani::cover!(!well_formed && n == 1, "too short");
    if !well_formed {
        assert!(got.is_err(), "a prefix that is not 0x-hex was accepted");
    } else if nd > 0 {
        match &got {
            Ok(p) => {
                let mut expect = true;
                let mut k = 0;
                while k < nd {
                    if nibble_of(&addr, k) != digits[k] {
                        expect = false;
                    }
                    k += 1;
                }
                let m = p.matches(Address(addr));
                kani::cover!(m && nd == MAX - 2, "longest prefix matches");
                kani::cover!(!m, "does not match");
                assert!(m == expect, "prefix match differs from the nibble-wise comparison");
            }
            Err(_) => panic!("hexadecimal prefix rejected"),
        }
    }
    core::mem::forget(got);
}

hdwallet::verif_harness! {
    #[kani::unwind(9)]
    fn c18_prefix_5() { check_prefix::<5>() }
}
hdwallet::verif_harness! {
    #[kani::unwind(11)]
    fn c18_prefix_7() { check_prefix::<7>() }
}

// A prefix that spells a whole address (40 digits) and one digit more: matching must not read past
// the address or accept an over-long prefix.
hdwallet::verif_harness! {
    #[kani::unwind(46)]
    fn c18_prefix_full_address() {
        let extra: bool = kani::any();
        let addr: [u8; 20] = kani::any();
        let other: [u8; 20] = kani::any();
        let mut text = [b'0'; 43];
        text[1] = b'x';
        let mut k = 0;
        while k < 40 {
            let d = nibble_of(&addr, k);
            let upper: bool = kani::any();
            text[2 + k] = if d < 10 { b'0' + d } else if upper { b'A' + d - 10 } else { b'a' + d - 10 };
            k += 1;
        }
        let n = if extra { 43 } else { 42 };
        let s = unsafe { core::str::from_utf8_unchecked(&text[..n]) };
        let got = Prefix::from_str(s);
        kani::cover!(extra, "41 digits");
        kani::cover!(!extra, "40 digits");
        match &got {
            Ok(p) => {
                if extra {
                    assert!(!p.matches(Address(addr)), "a 41-digit prefix cannot match a 40-digit address");
                } else {
                    assert!(p.matches(Address(addr)), "the address must match its own digits");
                    let mut same = true;
                    let mut i = 0;
                    while i < 20 {
                        if addr[i] != other[i] {
                            same = false;
                        }
                        i += 1;
                    }
                    assert!(p.matches(Address(other)) == same);
                }
            }
            Err(_) => panic!("hexadecimal prefix rejected"),
        }
        core::mem::forget(got);
    }
}

// ================================================================================= C12 / C18: `cmd::new::run`, single-threaded
// The generation command with its environment as recorders: `Mnemonic::random` hands out mnemonics tagged 1, 2, ... (or fails),
// `AccountOptions::private_key` notes which mnemonic / password / account selector it is asked about (or fails),
// `PrivateKey::address` returns a symbolic address for the first candidate and a matching one for the second (so the search ends
// within the bound), `Mnemonic::to_phrase` renders a mnemonic as its tag and `std::io::_print` formats what it is given (real
// `format!`) and keeps the first byte. Decided per query (configuration concrete, everything else symbolic):
//   * what is printed is the mnemonic whose selected account's address matched the prefix (the first candidate iff its address
//     matches, else the second), searched under the --vanity-password / --vanity-account-index / --vanity-hd-path given;
//   * a failing entropy request (first or later) or a failing key derivation is an error and NOTHING is printed;
//   * without a prefix exactly one mnemonic is generated and printed.
static mut RND_CALLS: usize = 0;
static mut RND_FAIL_AT: usize = 0; // 0 = never
static mut RND_LEN_OK: bool = true;
static mut PK_CALLS2: usize = 0;
static mut PK_TAG: [u8; 4] = [0; 4];
static mut PK_OPTS_OK: bool = true;
static mut PK_FAIL_AT: usize = 0;
static mut ADDR_CALLS: usize = 0;
static mut ADDR_FIRST: [u8; 20] = [0; 20];
static mut PRINTS: usize = 0;
static mut PRINTED: u8 = 0;
static mut WANT_LEN: usize = 0;
static mut WANT_INDEX: usize = 0;
static mut WANT_HD: bool = false;

// Mnemonics are told apart through the public API only: a mnemonic "tagged k" has the entropy length 11 * k, which
// `mnemonic_length()` reports as 8 * k + 1. The offset of the (private) length field is found by probing.
const MSIZE: usize = core::mem::size_of::<Mnemonic>();
fn mnemonic_with_len_byte(offset: usize, value: u8) -> Mnemonic {
    let mut raw = [0u8; MSIZE];
    raw[offset] = value;
    unsafe { core::mem::transmute::<[u8; MSIZE], Mnemonic>(raw) }
}
fn len_offset() -> usize {
    let mut o = 0;
    while o + 8 <= MSIZE {
        if mnemonic_with_len_byte(o, 11).mnemonic_length() == 9 {
            return o;
        }
        o += 8;
    }
    panic!("length field of Mnemonic not found");
}
fn tag_of(m: &Mnemonic) -> u8 {
    ((m.mnemonic_length() - 1) / 8) as u8
}
fn random_stub(_language: Language, length: usize) -> Result<Mnemonic> {
    unsafe {
        RND_CALLS += 1;
        if length != WANT_LEN { RND_LEN_OK = false; }
        if RND_FAIL_AT == RND_CALLS {
            return Err(anyhow::Error::msg("entropy source failed"));
        }
        assert!(RND_CALLS <= 3);
        Ok(mnemonic_with_len_byte(len_offset(), 11 * RND_CALLS as u8))
    }
}
impl AccountOptions {
    pub(crate) fn __verif_private_key_new(&self) -> Result<hdwallet::account::PrivateKey> {
        unsafe {
            assert!(PK_CALLS2 < 4, "search longer than the harness bound");
            PK_TAG[PK_CALLS2] = tag_of(&self.mnemonic);
            PK_CALLS2 += 1;
            if !(self.password.len() == 2 && self.password.as_bytes()[0] == b'p' && self.password.as_bytes()[1] == b'w') { PK_OPTS_OK = false; }
            if self.account_index != WANT_INDEX { PK_OPTS_OK = false; }
            if self.hd_path.is_some() != WANT_HD { PK_OPTS_OK = false; }
            if PK_FAIL_AT == PK_CALLS2 {
                return Err(anyhow::Error::msg("derivation failed"));
            }
            hdwallet::account::PrivateKey::new([0x11; 32])
        }
    }
}
fn address_stub(_key: &hdwallet::account::PrivateKey) -> Address {
    unsafe {
        ADDR_CALLS += 1;
        if ADDR_CALLS == 1 {
            let a: [u8; 20] = kani::any();
            ADDR_FIRST = a;
            Address(a)
        } else {
            // the second candidate matches (0xab...): the search ends within the bound
            let mut a = [0u8; 20];
            a[0] = 0xab;
            Address(a)
        }
    }
}
fn to_phrase_stub(m: &Mnemonic) -> String {
    let mut s = String::with_capacity(4);
    s.push((b'0' + tag_of(m)) as char);
    s
}
fn print_fmt_stub(args: core::fmt::Arguments<'_>) {
    let text = std::fmt::format(args);
    unsafe {
        PRINTS += 1;
        PRINTED = if text.len() > 0 { text.as_bytes()[0] } else { 0 };
    }
    core::mem::forget(text);
}

fn run_body<const VANITY: bool, const HD: bool>() {
    let length: usize = kani::any();
    let index: usize = kani::any();
    unsafe {
        RND_FAIL_AT = kani::any();
        PK_FAIL_AT = kani::any();
        kani::assume(RND_FAIL_AT <= 3 && PK_FAIL_AT <= 3);
        WANT_LEN = length;
        WANT_INDEX = index;
        WANT_HD = HD;
    }
    let options = Options {
        length,
        language: Language::default(),
        vanity_prefix: if VANITY { Some(Prefix { bytes: vec![0xab], nibble: None }) } else { None },
        vanity_password: "pw".to_string(),
        vanity_account_index: index,
        vanity_hd_path: if HD { Some("m/1".to_string()) } else { None },
        vanity_threads: 0,
    };
    let got = run(options);
    unsafe {
        assert!(RND_LEN_OK, "mnemonic generated with a length other than the requested one");
        let first_matches = ADDR_FIRST[0] == 0xab;
        // expected course of events
        let mut expect_err = RND_FAIL_AT == 1;
        let mut expect_tag = 1u8;
        if VANITY && !expect_err {
            if PK_FAIL_AT == 1 {
                expect_err = true;
            } else if !first_matches {
                if RND_FAIL_AT == 2 || PK_FAIL_AT == 2 {
                    expect_err = true;
                }
                expect_tag = 2;
            }
        }
        kani::cover!(!expect_err && expect_tag == 1, "first candidate printed");
        kani::cover!(!VANITY || (!expect_err && expect_tag == 2), "second candidate printed");
        kani::cover!(expect_err, "failure");
        kani::cover!(!VANITY || (RND_FAIL_AT == 2 && !first_matches), "entropy failure at a later request of the search");
        if expect_err {
            assert!(got.is_err(), "entropy or derivation failure swallowed");
            assert!(PRINTS == 0, "a phrase was printed although generation failed");
        } else {
            assert!(got.is_ok(), "generation failed without cause");
            assert!(PRINTS == 1, "exactly one phrase is printed");
            assert!(PRINTED == b'0' + expect_tag, "the printed phrase is not the one whose account matched the prefix");
            if VANITY {
                assert!(PK_OPTS_OK, "the search did not use the given vanity password / account index / path");
                assert!(PK_TAG[0] == 1 && (expect_tag == 1 || PK_TAG[1] == 2), "a candidate other than the generated one was examined");
                assert!(RND_CALLS == expect_tag as usize, "number of entropy requests");
            } else {
                assert!(RND_CALLS == 1 && PK_CALLS2 == 0, "plain generation: exactly one entropy request, no key derivation");
            }
        }
    }
    core::mem::forget(got);
}
macro_rules! run_harness {
    ($($name:ident = ($v:expr, $h:expr);)*) => {$(
        hdwallet::verif_harness_realfmt! {
            #[kani::stub(hdwallet::mnemonic::Mnemonic::random, random_stub)]
            #[kani::stub(hdwallet::mnemonic::Mnemonic::to_phrase, to_phrase_stub)]
            #[kani::stub(crate::cmd::AccountOptions::private_key, crate::cmd::AccountOptions::__verif_private_key_new)]
            #[kani::stub(hdwallet::account::PrivateKey::address, address_stub)]
            #[kani::stub(std::io::_print, print_fmt_stub)]
            #[kani::stub(std::backtrace::Backtrace::capture, hdwallet::__verif_common::backtrace_capture_stub)]
            #[kani::unwind(13)]
            fn $name() { run_body::<$v, $h>() }
        }
    )*};
}
run_harness! { c12_run_plain = (false, false); c18_run_vanity_index = (true, false); c18_run_vanity_hd_path = (true, true); }
