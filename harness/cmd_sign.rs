//! C11 / C17: Kani harness for the replay-protection guard in `cmd::sign::run` (binary crate; spliced into
//! src/cmd/sign.rs). Everything around the guard is environment and is replaced by recorders with arbitrary
//! results: key derivation (`AccountOptions::private_key`), file input (`cmd::read_input`), the JSON parser
//! (`serde_json::from_slice::<Transaction>` -> an arbitrary transaction of symbolic kind or an error), signing
//! (`PrivateKey::sign` -> records the digest), the digest and the encoder (`Transaction::signing_message`,
//! `Transaction::encode`: decided in C06) and `std::io::_print` (counts what is printed).
#![allow(static_mut_refs)]
use super::*;
use hdwallet::account::{PrivateKey, Signature};
use hdwallet::transaction::{Eip1559Transaction, Eip2930Transaction};

static mut PK_CALLS: usize = 0;
static mut READ_CALLS: usize = 0;
static mut PARSE_CALLS: usize = 0;
static mut PARSE_FAILS: bool = false;
static mut NEXT_TX: core::mem::MaybeUninit<Transaction> = core::mem::MaybeUninit::uninit();
static mut DIGEST_CALLS: usize = 0;
static mut DIGEST: [u8; 32] = [0; 32];
static mut SIGN_CALLS: usize = 0;
static mut SIGNED: [u8; 32] = [0; 32];
static mut SIGN_PARITY: u8 = 0;
static mut ENCODE_CALLS: usize = 0;
static mut ENCODE_PARITY_OK: bool = false;
static mut PRINT_CALLS: usize = 0;

impl AccountOptions {
    pub(crate) fn __verif_private_key(&self) -> Result<PrivateKey> {
        unsafe { PK_CALLS += 1; }
        PrivateKey::new([0x11; 32])
    }
}
fn read_input_stub(_input: &std::path::Path) -> Result<Vec<u8>> {
    unsafe { READ_CALLS += 1; }
    Ok(Vec::new())
}
fn from_slice_stub<'a, T>(_v: &'a [u8]) -> serde_json::Result<T>
where
    T: serde::de::Deserialize<'a>,
{
    unsafe {
        PARSE_CALLS += 1;
        if PARSE_FAILS {
            return Err(<serde_json::Error as serde::de::Error>::custom("recorder"));
        }
        assert!(PARSE_CALLS == 1, "only the transaction is parsed, once");
        assert!(core::mem::size_of::<T>() == core::mem::size_of::<Transaction>());
        assert!(core::any::type_name::<T>().ends_with("Transaction"));
        let out = core::ptr::read(NEXT_TX.as_ptr() as *const T);
        Ok(out)
    }
}
fn signing_message_stub(_tx: &Transaction) -> Digest {
    unsafe {
        DIGEST_CALLS += 1;
        let d: [u8; 32] = kani::any();
        DIGEST = d;
        Digest(d)
    }
}
const R: [u8; 32] = [0x11; 32];
const S: [u8; 32] = [0x22; 32];
fn sign_stub(_key: &PrivateKey, message: Digest) -> Signature {
    unsafe {
        SIGN_CALLS += 1;
        SIGNED = message.0;
        let parity: u8 = kani::any();
        kani::assume(parity < 2);
        SIGN_PARITY = parity;
        Signature::from_parts(ethnum::U256::from_be_bytes(R), ethnum::U256::from_be_bytes(S), parity)
    }
}
fn encode_stub(_tx: &Transaction, signature: Signature) -> Vec<u8> {
    unsafe {
        ENCODE_CALLS += 1;
        ENCODE_PARITY_OK = signature.y_parity() == ethnum::U256::new(SIGN_PARITY as u128);
    }
    vec![0xaa]
}
fn print_stub(_args: core::fmt::Arguments<'_>) {
    unsafe { PRINT_CALLS += 1; }
}
fn hex_encode_stub<T: AsRef<[u8]>>(_data: T) -> String {
    String::new()
}

fn u(v: u8) -> ethnum::U256 {
    ethnum::U256::new(v as u128)
}

hdwallet::verif_harness_nofmt! {
    #[kani::stub(crate::cmd::AccountOptions::private_key, crate::cmd::AccountOptions::__verif_private_key)]
    #[kani::stub(crate::cmd::read_input, read_input_stub)]
    #[kani::stub(serde_json::from_slice, from_slice_stub)]
    #[kani::stub(hdwallet::transaction::Transaction::signing_message, signing_message_stub)]
    #[kani::stub(hdwallet::transaction::Transaction::encode, encode_stub)]
    #[kani::stub(hdwallet::account::PrivateKey::sign, sign_stub)]
    #[kani::stub(std::io::_print, print_stub)]
    #[kani::stub(::hex::encode, hex_encode_stub)]
    #[kani::unwind(6)]
    fn c11_cli_guard() { guard_body() }
}

fn guard_body() {
    {
        let kind: u8 = kani::any();
        kani::assume(kind < 3);
        let has_chain: bool = kani::any();
        let chain: u8 = kani::any();
        let signature_only: bool = kani::any();
        let allow: bool = kani::any();
        let parse_fails: bool = kani::any();
        let tx = match kind {
            0 => Transaction::Legacy(LegacyTransaction {
                nonce: u(1), gas_price: u(2), gas: u(3), to: None, value: u(4), data: Vec::new(),
                chain_id: if has_chain { Some(u(chain)) } else { None },
            }),
            1 => Transaction::Eip2930(Eip2930Transaction {
                chain_id: u(chain), nonce: u(1), gas_price: u(2), gas: u(3), to: None, value: u(4), data: Vec::new(),
                access_list: Default::default(),
            }),
            _ => Transaction::Eip1559(Eip1559Transaction {
                chain_id: u(chain), nonce: u(1), max_priority_fee_per_gas: u(2), max_fee_per_gas: u(2), gas: u(3), to: None,
                value: u(4), data: Vec::new(), access_list: Default::default(),
            }),
        };
        unsafe {
            NEXT_TX.write(tx);
            PARSE_FAILS = parse_fails;
        }
        let options = Options {
            input: Input::Transaction {
                transaction: PathBuf::new(),
                signature_only,
                allow_missing_relay_protection: allow,
            },
            account: AccountOptions {
                mnemonic: unsafe { core::mem::zeroed() },
                password: String::new(),
                account_index: 0,
                hd_path: None,
            },
        };
        let got = run(options);
        let unprotected = kind == 0 && !has_chain;
        kani::cover!(!parse_fails && unprotected && !allow && signature_only, "unprotected legacy, signature-only, no override");
        kani::cover!(!parse_fails && unprotected && !allow && !signature_only, "unprotected legacy, full output, no override");
        kani::cover!(!parse_fails && unprotected && allow, "override given");
        kani::cover!(!parse_fails && kind == 0 && has_chain && chain == 0, "legacy with chain id 0");
        kani::cover!(!parse_fails && kind == 2, "typed transaction");
        kani::cover!(parse_fails, "malformed transaction");
        unsafe {
            assert!(PK_CALLS == 1 && READ_CALLS == 1 && PARSE_CALLS == 1);
            if parse_fails || (unprotected && !allow) {
                assert!(got.is_err(), "legacy transaction without chain id signed without the override flag");
                assert!(SIGN_CALLS == 0, "a signature was made although the command fails");
                assert!(PRINT_CALLS == 0, "something was printed although the command fails");
                assert!(ENCODE_CALLS == 0);
            } else {
                assert!(got.is_ok(), "protected (or explicitly overridden) transaction refused");
                assert!(DIGEST_CALLS == 1 && SIGN_CALLS == 1, "exactly one signature");
                assert!(hdwallet::__verif_common::eq32(&SIGNED, &DIGEST), "what is signed is not the transaction's signing digest");
                assert!(PRINT_CALLS == 1, "exactly one line of output");
                if signature_only {
                    assert!(ENCODE_CALLS == 0);
                } else {
                    assert!(ENCODE_CALLS == 1 && ENCODE_PARITY_OK, "the emitted transaction does not carry the signature just made");
                }
            }
        }
        core::mem::forget(got);
    }
}
