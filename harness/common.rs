//! Shared stubs, recorders and helpers for the Kani harnesses (spliced into the scratch copy of
//! hdwallet as `crate::__verif_common`, only under `cfg(kani)`; see /verif/DESIGN.md 0.3).
//!
//! Every harness is *dual mode*:
//!  * under Kani the stubs below are active (`stubs_active()` is true), primitives are
//!    uninterpreted recorders and inputs are symbolic;
//!  * under native concrete playback (`cargo kani playback`, used to replay counterexamples) stubs
//!    are NOT applied, `stubs_active()` is false, the real primitives run and the harness compares
//!    against the real primitive applied to the specified input instead of against the recorder.
#![allow(dead_code, static_mut_refs, clippy::all)]

/// Probe that tells a harness whether Kani's stubs are applied (solver) or not (native replay).
pub fn stubs_active() -> bool {
    false
}
pub fn stubs_active_on() -> bool {
    true
}

/// `alloc::fmt::format` stub: error *messages* are outside every claim, only Ok/Err is decided.
pub fn fmt_format_stub(_args: core::fmt::Arguments<'_>) -> String {
    String::new()
}

/// `std::backtrace::Backtrace::capture` stub (anyhow captures one per error).
pub fn backtrace_capture_stub() -> std::backtrace::Backtrace {
    std::backtrace::Backtrace::disabled()
}

// ------------------------------------------------------------------------------------------------
// Keccak-256 (`ethdigest::Digest::of`) as an uninterpreted function: records the bytes it is given
// and returns an arbitrary digest.

pub const DLOG_CALLS: usize = 4;
pub const DLOG_BYTES: usize = 192;
pub static mut DLOG: [[u8; DLOG_BYTES]; DLOG_CALLS] = [[0; DLOG_BYTES]; DLOG_CALLS];
pub static mut DLOG_LEN: [usize; DLOG_CALLS] = [0; DLOG_CALLS];
pub static mut DLOG_OUT: [[u8; 32]; DLOG_CALLS] = [[0; 32]; DLOG_CALLS];
pub static mut DLOG_N: usize = 0;

pub fn digest_of_stub(data: impl AsRef<[u8]>) -> ethdigest::Digest {
    let d = data.as_ref();
    unsafe {
        let i = DLOG_N;
        assert!(i < DLOG_CALLS, "more Keccak invocations than the specification allows");
        assert!(d.len() <= DLOG_BYTES, "hashed input longer than the harness bound");
        DLOG_LEN[i] = d.len();
        let mut k = 0;
        while k < d.len() {
            DLOG[i][k] = d[k];
            k += 1;
        }
        let out: [u8; 32] = kani::any();
        DLOG_OUT[i] = out;
        DLOG_N = i + 1;
        ethdigest::Digest(out)
    }
}

/// Number of Keccak invocations recorded so far (solver mode only).
pub fn digest_calls() -> usize {
    unsafe { DLOG_N }
}

/// Asserts that the `i`-th Keccak invocation hashed exactly `expected` and that `result` is what it
/// returned. Natively (replay) asserts `result == keccak256(expected)` with the real primitive.
pub fn digest_expect(i: usize, expected: &[u8], result: &[u8; 32]) {
    if stubs_active() {
        unsafe {
            assert!(i < DLOG_N, "expected Keccak invocation did not happen");
            assert!(DLOG_LEN[i] == expected.len(), "hashed input has the wrong length");
            let mut k = 0;
            while k < expected.len() {
                assert!(DLOG[i][k] == expected[k], "hashed input differs from the specified preimage");
                k += 1;
            }
            let mut k = 0;
            while k < 32 {
                assert!(DLOG_OUT[i][k] == result[k], "digest was not returned unchanged");
                k += 1;
            }
        }
    } else {
        let real = ethdigest::Digest::of(expected);
        assert!(real.0 == *result, "digest differs from Keccak-256 of the specified preimage");
    }
}

/// Byte-wise slice equality written as an explicit loop (array `==` lowers to memcmp, which needs
/// its own unwinding; see DESIGN.md 0.4).
pub fn bytes_eq(a: &[u8], b: &[u8]) -> bool {
    if a.len() != b.len() {
        return false;
    }
    let mut i = 0;
    while i < a.len() {
        if a[i] != b[i] {
            return false;
        }
        i += 1;
    }
    true
}

/// A strict RLP header decoder used as the oracle for C06/C07: returns
/// `(is_list, payload_len, header_len)` and rejects every non-canonical header
/// (long form below 56, leading zero length bytes, truncated header).
pub fn rlp_strict_header(buf: &[u8]) -> Option<(bool, usize, usize)> {
    let b0 = *buf.first()?;
    let (is_list, short_base, long_base) = if b0 < 0x80 {
        return Some((false, 1, 0)); // the byte is its own payload
    } else if b0 < 0xc0 {
        (false, 0x80u8, 0xb7u8)
    } else {
        (true, 0xc0u8, 0xf7u8)
    };
    if b0 <= long_base {
        return Some((is_list, (b0 - short_base) as usize, 1));
    }
    let ll = (b0 - long_base) as usize; // 1..=8
    if buf.len() < 1 + ll {
        return None;
    }
    if buf[1] == 0 {
        return None; // leading zero in the length
    }
    let mut n: usize = 0;
    let mut i = 0;
    while i < ll {
        n = (n << 8) | buf[1 + i] as usize;
        i += 1;
    }
    if n < 56 {
        return None; // must have used the short form
    }
    Some((is_list, n, 1 + ll))
}

/// Declares a proof harness with the standard set of stubs:
/// `stubs_active` probe, `alloc::fmt::format`, `Backtrace::capture`.
#[macro_export]
macro_rules! verif_harness {
    ($(#[$m:meta])* fn $name:ident() $body:block) => {
        #[kani::proof]
        #[kani::stub($crate::__verif_common::stubs_active, $crate::__verif_common::stubs_active_on)]
        #[kani::stub(alloc::fmt::format, $crate::__verif_common::fmt_format_stub)]
        #[kani::stub(std::backtrace::Backtrace::capture, $crate::__verif_common::backtrace_capture_stub)]
        $(#[$m])*
        fn $name() $body
    };
}
