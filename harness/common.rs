//! Shared stubs, recorders and helpers for the Kani harnesses (spliced into the scratch copy of
//! hdwallet as `crate::__verif_common`, only under `cfg(kani)`; see /verif/DESIGN.md 0.3).
//!
//! Every harness is *dual mode*:
//!  * under Kani the stubs below are active (`stubs_active()` is true), primitives are
//!    uninterpreted recorders and inputs are symbolic;
//!  * under native concrete playback (`cargo kani playback`, used to replay counterexamples) stubs
//!    are NOT applied, `stubs_active()` is false, the real primitives run and the harness compares
//!    against the real primitive applied to the specified input instead of against the recorder.
#![allow(dead_code, static_mut_refs, clippy::all)]

/// Probe that tells a harness whether Kani's stubs are applied (solver) or not (native replay).
pub fn stubs_active() -> bool {
    false
}
pub fn stubs_active_on() -> bool {
    true
}

/// `alloc::fmt::format` stub: error *messages* are outside every claim, only Ok/Err is decided.
pub fn fmt_format_stub(_args: core::fmt::Arguments<'_>) -> String {
    String::new()
}

/// `std::backtrace::Backtrace::capture` stub (anyhow captures one per error).
pub fn backtrace_capture_stub() -> std::backtrace::Backtrace {
    std::backtrace::Backtrace::disabled()
}

// ------------------------------------------------------------------------------------------------
// Keccak-256 (`ethdigest::Digest::of`) as an uninterpreted function: records the bytes it is given
// and returns an arbitrary digest.

pub const DLOG_CALLS: usize = 4;
pub const DLOG_BYTES: usize = 192;
pub static mut DLOG: [[u8; DLOG_BYTES]; DLOG_CALLS] = [[0; DLOG_BYTES]; DLOG_CALLS];
pub static mut DLOG_LEN: [usize; DLOG_CALLS] = [0; DLOG_CALLS];
pub static mut DLOG_OUT: [[u8; 32]; DLOG_CALLS] = [[0; 32]; DLOG_CALLS];
pub static mut DLOG_N: usize = 0;

fn digest_record<const CH: usize>(d: &[u8]) -> ethdigest::Digest {
    unsafe {
        let i = DLOG_N;
        assert!(i < DLOG_CALLS, "more Keccak invocations than the specification allows");
        assert!(d.len() <= 16 * CH && d.len() <= DLOG_BYTES, "hashed input longer than the harness bound");
        DLOG_LEN[i] = d.len();
        copy_bytes_sym::<CH>(&mut DLOG[i], d);
        let out: [u8; 32] = kani::any();
        DLOG_OUT[i] = out;
        DLOG_N = i + 1;
        ethdigest::Digest(out)
    }
}

/// recorder for preimages up to 192 bytes (needs unwind >= 13)
pub fn digest_of_stub(data: impl AsRef<[u8]>) -> ethdigest::Digest {
    digest_record::<12>(data.as_ref())
}

/// recorder for preimages up to 96 bytes (needs unwind >= 7)
pub fn digest_of_stub96(data: impl AsRef<[u8]>) -> ethdigest::Digest {
    digest_record::<6>(data.as_ref())
}
pub fn digest_expect96(i: usize, expected: &[u8], result: &[u8; 32]) {
    digest_expect_n::<6>(i, expected, result)
}

/// recorder for preimages up to 80 bytes (needs unwind >= 6)
pub fn digest_of_stub80(data: impl AsRef<[u8]>) -> ethdigest::Digest {
    digest_record::<5>(data.as_ref())
}

/// Number of Keccak invocations recorded so far (solver mode only).
pub fn digest_calls() -> usize {
    unsafe { DLOG_N }
}

/// Asserts that the `i`-th Keccak invocation hashed exactly `expected` and that `result` is what it
/// returned. Natively (replay) asserts `result == keccak256(expected)` with the real primitive.
pub fn digest_expect(i: usize, expected: &[u8], result: &[u8; 32]) {
    digest_expect_n::<12>(i, expected, result)
}
pub fn digest_expect80(i: usize, expected: &[u8], result: &[u8; 32]) {
    digest_expect_n::<5>(i, expected, result)
}
fn digest_expect_n<const CH: usize>(i: usize, expected: &[u8], result: &[u8; 32]) {
    if stubs_active() {
        unsafe {
            assert!(i < DLOG_N, "expected Keccak invocation did not happen");
            assert!(DLOG_LEN[i] == expected.len(), "hashed input has the wrong length");
            assert!(bytes_eq_sym::<CH>(&DLOG[i][..expected.len()], expected), "hashed input differs from the specified preimage");
            assert!(eq32(&DLOG_OUT[i], result), "digest was not returned unchanged");
        }
    } else {
        let real = ethdigest::Digest::of(expected);
        assert!(real.0 == *result, "digest differs from Keccak-256 of the specified preimage");
    }
}

#[inline(always)]
fn ld16(a: &[u8], i: usize) -> u128 {
    u128::from_ne_bytes([
        a[i], a[i + 1], a[i + 2], a[i + 3], a[i + 4], a[i + 5], a[i + 6], a[i + 7],
        a[i + 8], a[i + 9], a[i + 10], a[i + 11], a[i + 12], a[i + 13], a[i + 14], a[i + 15],
    ])
}

/// Slice equality in 16-byte steps, tail in 8/4/2/1 steps: the only loop runs len/16 times, so the
/// unwind bound a harness needs is dictated by the code under test, not by the oracle. (Array `==`
/// lowers to a per-byte memcmp loop, and every loop with a symbolic trip count is unrolled to the
/// harness' unwind bound, so small bounds matter.)
pub fn bytes_eq(a: &[u8], b: &[u8]) -> bool {
    if a.len() != b.len() {
        return false;
    }
    let n = b.len(); // pass the side whose length is a compile-time constant as `b`
    let mut i = 0;
    while i + 16 <= n {
        if ld16(a, i) != ld16(b, i) {
            return false;
        }
        i += 16;
    }
    if n - i >= 8 {
        if !(a[i] == b[i] && a[i + 1] == b[i + 1] && a[i + 2] == b[i + 2] && a[i + 3] == b[i + 3]
            && a[i + 4] == b[i + 4] && a[i + 5] == b[i + 5] && a[i + 6] == b[i + 6] && a[i + 7] == b[i + 7]) {
            return false;
        }
        i += 8;
    }
    if n - i >= 4 {
        if !(a[i] == b[i] && a[i + 1] == b[i + 1] && a[i + 2] == b[i + 2] && a[i + 3] == b[i + 3]) {
            return false;
        }
        i += 4;
    }
    if n - i >= 2 {
        if !(a[i] == b[i] && a[i + 1] == b[i + 1]) {
            return false;
        }
        i += 2;
    }
    if n - i >= 1 && a[i] != b[i] {
        return false;
    }
    true
}

/// `dst[..src.len()] = src` in 16-byte steps (a memcpy of symbolic length is far more expensive for
/// CBMC, a per-byte loop forces a large unwind bound).
pub fn copy_bytes(dst: &mut [u8], src: &[u8]) {
    let n = src.len();
    let mut i = 0;
    while i + 16 <= n {
        dst[i] = src[i];
        dst[i + 1] = src[i + 1];
        dst[i + 2] = src[i + 2];
        dst[i + 3] = src[i + 3];
        dst[i + 4] = src[i + 4];
        dst[i + 5] = src[i + 5];
        dst[i + 6] = src[i + 6];
        dst[i + 7] = src[i + 7];
        dst[i + 8] = src[i + 8];
        dst[i + 9] = src[i + 9];
        dst[i + 10] = src[i + 10];
        dst[i + 11] = src[i + 11];
        dst[i + 12] = src[i + 12];
        dst[i + 13] = src[i + 13];
        dst[i + 14] = src[i + 14];
        dst[i + 15] = src[i + 15];
        i += 16;
    }
    if n - i >= 8 {
        dst[i] = src[i];
        dst[i + 1] = src[i + 1];
        dst[i + 2] = src[i + 2];
        dst[i + 3] = src[i + 3];
        dst[i + 4] = src[i + 4];
        dst[i + 5] = src[i + 5];
        dst[i + 6] = src[i + 6];
        dst[i + 7] = src[i + 7];
        i += 8;
    }
    if n - i >= 4 {
        dst[i] = src[i];
        dst[i + 1] = src[i + 1];
        dst[i + 2] = src[i + 2];
        dst[i + 3] = src[i + 3];
        i += 4;
    }
    if n - i >= 2 {
        dst[i] = src[i];
        dst[i + 1] = src[i + 1];
        i += 2;
    }
    if n - i >= 1 {
        dst[i] = src[i];
    }
}

// ------------------------------------------------------------------------------------------------
// Variants for slices whose length CBMC cannot resolve to a constant (Vec lengths read back from the
// heap, lengths returned by the code under test). After a loop with a symbolic trip count the
// induction variable is symbolic, and every later `a[i]` is an array-theory access (measured: 5.6 M
// variables / 24 M clauses for a 36-byte copy). Here the loop runs a *constant* number CH of 16-byte
// chunks and every index is a constant; positions beyond the real length are guarded out.
macro_rules! guarded16 {
    ($base:expr, $n:expr, |$idx:ident| $body:block) => {{
        { let $idx = $base; if $idx < $n $body }
        { let $idx = $base + 1; if $idx < $n $body }
        { let $idx = $base + 2; if $idx < $n $body }
        { let $idx = $base + 3; if $idx < $n $body }
        { let $idx = $base + 4; if $idx < $n $body }
        { let $idx = $base + 5; if $idx < $n $body }
        { let $idx = $base + 6; if $idx < $n $body }
        { let $idx = $base + 7; if $idx < $n $body }
        { let $idx = $base + 8; if $idx < $n $body }
        { let $idx = $base + 9; if $idx < $n $body }
        { let $idx = $base + 10; if $idx < $n $body }
        { let $idx = $base + 11; if $idx < $n $body }
        { let $idx = $base + 12; if $idx < $n $body }
        { let $idx = $base + 13; if $idx < $n $body }
        { let $idx = $base + 14; if $idx < $n $body }
        { let $idx = $base + 15; if $idx < $n $body }
    }};
}

/// `dst[..src.len()] = src` for a source of symbolic length <= 16 * CH.
pub fn copy_bytes_sym<const CH: usize>(dst: &mut [u8], src: &[u8]) {
    let n = src.len();
    assert!(n <= 16 * CH, "harness bound: copy longer than the stated maximum");
    let mut c = 0;
    while c < CH {
        guarded16!(c * 16, n, |k| { dst[k] = src[k]; });
        c += 1;
    }
}

/// Slice equality for slices of symbolic length <= 16 * CH.
pub fn bytes_eq_sym<const CH: usize>(a: &[u8], b: &[u8]) -> bool {
    if a.len() != b.len() {
        return false;
    }
    let n = a.len();
    assert!(n <= 16 * CH, "harness bound: comparison longer than the stated maximum");
    let mut same = true;
    let mut c = 0;
    while c < CH {
        guarded16!(c * 16, n, |k| { if a[k] != b[k] { same = false; } });
        c += 1;
    }
    same
}

/// 32-byte equality without any loop.
pub fn eq32(a: &[u8; 32], b: &[u8; 32]) -> bool {
    bytes_eq(&a[..16], &b[..16]) && bytes_eq(&a[16..], &b[16..])
}

/// Big-endian comparison `a < b` of 32-byte integers without a loop.
pub fn lt32(a: &[u8; 32], b: &[u8; 32]) -> bool {
    let hi = |x: &[u8; 32]| u128::from_be_bytes([x[0], x[1], x[2], x[3], x[4], x[5], x[6], x[7], x[8], x[9], x[10], x[11], x[12], x[13], x[14], x[15]]);
    let lo = |x: &[u8; 32]| u128::from_be_bytes([x[16], x[17], x[18], x[19], x[20], x[21], x[22], x[23], x[24], x[25], x[26], x[27], x[28], x[29], x[30], x[31]]);
    hi(a) < hi(b) || (hi(a) == hi(b) && lo(a) < lo(b))
}

pub fn is_zero32(a: &[u8; 32]) -> bool {
    eq32(a, &[0u8; 32])
}

/// secp256k1 group order, big-endian.
pub const SECP256K1_ORDER: [u8; 32] = [
    0xff, 0xff, 0xff, 0xff, 0xff, 0xff, 0xff, 0xff, 0xff, 0xff, 0xff, 0xff, 0xff, 0xff, 0xff, 0xfe,
    0xba, 0xae, 0xdc, 0xe6, 0xaf, 0x48, 0xa0, 0x3b, 0xbf, 0xd2, 0x5e, 0x8c, 0xd0, 0x36, 0x41, 0x41,
];

/// 0 < x < n
pub fn scalar_in_range32(x: &[u8; 32]) -> bool {
    !is_zero32(x) && lt32(x, &SECP256K1_ORDER)
}

/// A strict RLP header decoder used as the oracle for C06/C07: returns
/// `(is_list, payload_len, header_len)` and rejects every non-canonical header
/// (long form below 56, leading zero length bytes, truncated header).
pub fn rlp_strict_header(buf: &[u8]) -> Option<(bool, usize, usize)> {
    let b0 = *buf.first()?;
    let (is_list, short_base, long_base) = if b0 < 0x80 {
        return Some((false, 1, 0)); // the byte is its own payload
    } else if b0 < 0xc0 {
        (false, 0x80u8, 0xb7u8)
    } else {
        (true, 0xc0u8, 0xf7u8)
    };
    if b0 <= long_base {
        return Some((is_list, (b0 - short_base) as usize, 1));
    }
    let ll = (b0 - long_base) as usize; // 1..=8
    if buf.len() < 1 + ll {
        return None;
    }
    if buf[1] == 0 {
        return None; // leading zero in the length
    }
    // big-endian length, straight-line (ll is 1..=8)
    let mut n: usize = buf[1] as usize;
    if ll > 1 { n = (n << 8) | buf[2] as usize; }
    if ll > 2 { n = (n << 8) | buf[3] as usize; }
    if ll > 3 { n = (n << 8) | buf[4] as usize; }
    if ll > 4 { n = (n << 8) | buf[5] as usize; }
    if ll > 5 { n = (n << 8) | buf[6] as usize; }
    if ll > 6 { n = (n << 8) | buf[7] as usize; }
    if ll > 7 { n = (n << 8) | buf[8] as usize; }
    if n < 56 {
        return None; // must have used the short form
    }
    Some((is_list, n, 1 + ll))
}

/// Declares a proof harness with the standard set of stubs:
/// `stubs_active` probe, `alloc::fmt::format`, `Backtrace::capture`.
#[macro_export]
macro_rules! verif_harness {
    ($(#[$m:meta])* fn $name:ident() $body:block) => {
        #[kani::proof]
        #[kani::stub($crate::__verif_common::stubs_active, $crate::__verif_common::stubs_active_on)]
        #[kani::stub(alloc::fmt::format, $crate::__verif_common::fmt_format_stub)]
        #[kani::stub(std::backtrace::Backtrace::capture, $crate::__verif_common::backtrace_capture_stub)]
        #[kani::stub(core::slice::memchr::memchr_aligned, $crate::__verif_common::memchr_aligned_stub)]
        #[kani::stub(core::slice::memchr::memrchr, $crate::__verif_common::memrchr_stub)]
        $(#[$m])*
        fn $name() $body
    };
}

/// `core::fmt::write` stub: nothing is written. For parsers whose *error paths* render a message through
/// `Display`/`to_string()` (serde's `Error::custom`, `hex::FromHexError`, `ParseIntError`): only Ok/Err is decided,
/// the text of error messages is outside the claim. Never applied where a *result* depends on formatting.
pub static mut FMT_WRITES: usize = 0;
pub fn fmt_write_stub(_output: &mut dyn core::fmt::Write, _args: core::fmt::Arguments<'_>) -> core::fmt::Result {
    unsafe { FMT_WRITES += 1; }
    Ok(())
}

/// `core::unicode::unicode_data::n::lookup` (the Unicode `N` table behind `char::is_numeric` for non-ASCII characters):
/// unreachable for the ASCII inputs the grammar harnesses assume; reaching it is reported as a failure, not ignored.
pub fn unicode_n_stub(_c: char) -> bool {
    panic!("harness bound: non-ASCII character reached the Unicode numeric table");
}

/// `verif_harness!` plus the `core::fmt::write` stub (error messages empty).
#[macro_export]
macro_rules! verif_harness_nofmt {
    ($(#[$m:meta])* fn $name:ident() $body:block) => {
        $crate::verif_harness! {
            #[kani::stub(core::fmt::write, $crate::__verif_common::fmt_write_stub)]
            $(#[$m])*
            fn $name() $body
        }
    };
}

/// Like `verif_harness!` but without the `alloc::fmt::format` stub, for code under test whose
/// *result* depends on `format!` (and which cannot reach an error path).
#[macro_export]
macro_rules! verif_harness_realfmt {
    ($(#[$m:meta])* fn $name:ident() $body:block) => {
        #[kani::proof]
        #[kani::stub($crate::__verif_common::stubs_active, $crate::__verif_common::stubs_active_on)]
        #[kani::stub(core::slice::memchr::memchr_aligned, $crate::__verif_common::memchr_aligned_stub)]
        #[kani::stub(core::slice::memchr::memrchr, $crate::__verif_common::memrchr_stub)]
        $(#[$m])*
        fn $name() $body
    };
}


/// Reference implementation of `core::slice::memchr::memchr_aligned` (same contract: index of the first
/// byte equal to `x`). The library version first aligns the pointer and then scans word-wise; CBMC
/// treats object addresses as symbolic, so the alignment arithmetic explodes as soon as the slice
/// length is not a compile-time constant (measured: `Path::from_str("m/")` did not finish in 5 min).
pub fn memchr_aligned_stub(x: u8, text: &[u8]) -> Option<usize> {
    let mut i = 0;
    while i < text.len() {
        if text[i] == x {
            return Some(i);
        }
        i += 1;
    }
    None
}

/// Reference implementation of `core::slice::memchr::memrchr` (index of the last byte equal to `x`).
pub fn memrchr_stub(x: u8, text: &[u8]) -> Option<usize> {
    let mut i = text.len();
    while i > 0 {
        i -= 1;
        if text[i] == x {
            return Some(i);
        }
    }
    None
}

// ------------------------------------------------------------------------------------------------
// Strings that are built character by character (`chars().filter().collect::<String>()`): every `String::push`
// may grow the buffer, and a growth step is a realloc with a memcpy of symbolic length at a point CBMC cannot
// resolve (measured: three symbolic characters through `cmd::permissive_hex` exceeded 14 GB). The two stubs below
// replace the *growth policy* of `String` (std, trusted) by a fixed pre-allocation: `String::new` reserves
// STRING_CAP bytes and `String::push` appends the UTF-8 encoding in place, asserting that the capacity suffices
// (so exceeding the harness bound is reported, never silently truncated). Contents and lengths are unchanged.
pub const STRING_CAP: usize = 64;
pub fn string_new_stub() -> String {
    String::with_capacity(STRING_CAP)
}
pub fn string_push_stub(s: &mut String, ch: char) {
    let c = ch as u32;
    let v = unsafe { s.as_mut_vec() };
    let len = v.len();
    assert!(len + 4 <= v.capacity(), "harness bound: string longer than the pre-reserved capacity");
    unsafe {
        let p = v.as_mut_ptr().add(len);
        if c < 0x80 {
            *p = c as u8;
            v.set_len(len + 1);
        } else if c < 0x800 {
            *p = 0xc0 | (c >> 6) as u8;
            *p.add(1) = 0x80 | (c & 0x3f) as u8;
            v.set_len(len + 2);
        } else if c < 0x10000 {
            *p = 0xe0 | (c >> 12) as u8;
            *p.add(1) = 0x80 | ((c >> 6) & 0x3f) as u8;
            *p.add(2) = 0x80 | (c & 0x3f) as u8;
            v.set_len(len + 3);
        } else {
            *p = 0xf0 | (c >> 18) as u8;
            *p.add(1) = 0x80 | ((c >> 12) & 0x3f) as u8;
            *p.add(2) = 0x80 | ((c >> 6) & 0x3f) as u8;
            *p.add(3) = 0x80 | (c & 0x3f) as u8;
            v.set_len(len + 4);
        }
    }
}

/// `String::push_str` under the same model: in-place append in a constant number of 16-byte chunks (a memcpy of
/// symbolic length at a symbolic offset is what makes `write!` into a `String` expensive). Strings that did not
/// come from `String::new` (literals, `with_capacity`) keep std's `reserve` as the growth step.
pub fn string_push_str_stub(s: &mut String, t: &str) {
    let v = unsafe { s.as_mut_vec() };
    let len = v.len();
    let tb = t.as_bytes();
    let n = tb.len();
    assert!(n <= 64, "harness bound: appended piece longer than 64 bytes");
    if len + n > v.capacity() {
        v.reserve(n);
    }
    unsafe {
        let p = v.as_mut_ptr().add(len);
        let mut c = 0;
        while c < 4 {
            guarded16!(c * 16, n, |k| { *p.add(k) = tb[k]; });
            c += 1;
        }
        v.set_len(len + n);
    }
}

/// `verif_harness!` plus the memchr stub, for code under test that searches strings with a `char` pattern.
#[macro_export]
macro_rules! verif_harness_memchr {
    ($(#[$m:meta])* fn $name:ident() $body:block) => {
        $crate::verif_harness! {
            $(#[$m])*
            fn $name() $body
        }
    };
}
