//! C13 / C17: Kani harnesses for the transaction field deserializers (spliced into
//! src/serialization.rs). After `Transaction::deserialize` every field is deserialized from a
//! `serde_json::Value`, so the leaves are driven with `Value`s exactly as the derive code does.
use super::*;
#[allow(unused_imports)]
use crate::__verif_common::*;
use ethnum::U256;
use serde_json::Number;

fn hex_val(c: u8) -> Option<u8> {
    match c {
        b'0'..=b'9' => Some(c - b'0'),
        b'a'..=b'f' => Some(c - b'a' + 10),
        b'A'..=b'F' => Some(c - b'A' + 10),
        _ => None,
    }
}

// ---------------------------------------------------------------------------------- JSON numbers
crate::verif_harness! {
    #[kani::unwind(10)]
    fn c13_number_u64() {
        let v: u64 = kani::any();
        let got = num::deserialize(Value::Number(Number::from(v)));
        kani::cover!(v == u64::MAX, "u64 maximum");
        kani::cover!(v == 0, "zero");
        match &got {
            Ok(x) => assert!(*x == U256::new(v as u128), "JSON integer changed its value"),
            Err(_) => panic!("non-negative JSON integer refused"),
        }
        core::mem::forget(got);
    }
}

crate::verif_harness! {
    #[kani::unwind(10)]
    fn c13_number_i64() {
        let v: i64 = kani::any();
        let got = num::deserialize(Value::Number(Number::from(v)));
        kani::cover!(v == -1, "minus one");
        kani::cover!(v == i64::MIN, "i64 minimum");
        kani::cover!(v == i64::MAX, "i64 maximum");
        match &got {
            Ok(x) => {
                assert!(v >= 0, "negative JSON number accepted for an unsigned field");
                assert!(*x == U256::new(v as u128), "JSON integer changed its value");
            }
            Err(_) => assert!(v < 0, "non-negative JSON integer refused"),
        }
        core::mem::forget(got);
    }
}

crate::verif_harness! {
    #[kani::unwind(10)]
    fn c13_number_f64() {
        let f: f64 = kani::any();
        kani::assume(f.is_finite());
        let n = Number::from_f64(f).expect("finite");
        let got = num::deserialize(Value::Number(n));
        const LIMIT: f64 = 9007199254740992.0; // 2^53
        let integral_safe = f >= 0.0 && f < LIMIT && (f as u64) as f64 == f;
        kani::cover!(integral_safe && f > 1e15, "large integral float accepted");
        kani::cover!(f < 0.0 && f > -2.0, "small negative float");
        kani::cover!(f > 0.0 && f < 1.0, "fraction");
        kani::cover!(f >= LIMIT, "beyond exactness");
        match &got {
            Ok(x) => {
                // exact mathematical value or refused: never negative, fractional, rounded
                assert!(f >= 0.0 || f == 0.0, "negative JSON float accepted for an unsigned field");
                assert!(f < LIMIT, "float beyond the exactly representable range accepted");
                assert!((f as u64) as f64 == f, "fractional JSON float accepted");
                assert!(*x == U256::new((f as u64) as u128), "JSON float changed its value");
            }
            Err(_) => assert!(!integral_safe, "integral JSON float in [0, 2^53) refused"),
        }
        core::mem::forget(got);
    }
}

// optional chain id: null -> None, anything else as above
crate::verif_harness! {
    #[kani::unwind(10)]
    fn c13_numopt() {
        let which: u8 = kani::any();
        kani::assume(which < 3);
        let v: i64 = kani::any();
        let value = match which {
            0 => Value::Null,
            1 => Value::Number(Number::from(v)),
            _ => Value::Bool(true),
        };
        let got: core::result::Result<Option<U256>, serde_json::Error> = numopt::deserialize(value);
        kani::cover!(which == 0, "null");
        kani::cover!(which == 1 && v > 0, "positive number");
        kani::cover!(which == 1 && v < 0, "negative number");
        match &got {
            Ok(None) => assert!(which == 0, "chain id dropped"),
            Ok(Some(x)) => assert!(which == 1 && v >= 0 && *x == U256::new(v as u128), "chain id changed its value"),
            Err(_) => assert!(which == 2 || (which == 1 && v < 0), "valid chain id refused"),
        }
        core::mem::forget(got);
    }
}

// ---------------------------------------------------------------------------------- number strings
/// Specification of a numeric string over ASCII: decimal digits, or 0x + hex digits (either case);
/// value computed exactly (inputs are short enough for u64). None = don't care ('+' sign).
fn spec_number_string(s: &[u8]) -> Option<Option<u64>> {
    if s.first() == Some(&b'+') {
        return None;
    }
    if s.len() >= 2 && s[0] == b'0' && s[1] == b'x' {
        let d = &s[2..];
        if d.first() == Some(&b'+') {
            return None;
        }
        if d.is_empty() {
            return Some(None);
        }
        let mut v: u64 = 0;
        let mut i = 0;
        while i < d.len() {
            match hex_val(d[i]) {
                Some(h) => v = (v << 4) | h as u64,
                None => return Some(None),
            }
            i += 1;
        }
        return Some(Some(v));
    }
    if s.is_empty() {
        return Some(None);
    }
    let mut v: u64 = 0;
    let mut i = 0;
    while i < s.len() {
        if !s[i].is_ascii_digit() {
            return Some(None);
        }
        v = v * 10 + (s[i] - b'0') as u64;
        i += 1;
    }
    Some(Some(v))
}

fn check_number_string<const N: usize>() {
    let text: [u8; N] = kani::any();
    let mut i = 0;
    while i < N {
        kani::assume(text[i] < 0x80);
        i += 1;
    }
    let s = unsafe { String::from_utf8_unchecked(text.to_vec()) };
    let got = num::deserialize(Value::String(s));
    let spec = spec_number_string(&text);
    kani::cover!(N == 0 || matches!(spec, Some(Some(_))), "accepted");
    kani::cover!(matches!(spec, Some(None)), "rejected");
    kani::cover!(N < 3 || (matches!(spec, Some(Some(_))) && text[1] == b'x'), "hexadecimal accepted");
    kani::cover!(N < 1 || text[0] == b'-', "negative string");
    match spec {
        Some(Some(v)) => match &got {
            Ok(x) => assert!(*x == U256::new(v as u128), "numeric string changed its value"),
            Err(_) => panic!("well-formed numeric string refused"),
        },
        Some(None) => assert!(got.is_err(), "string that is not a number accepted"),
        None => {}
    }
    core::mem::forget(got);
}
macro_rules! number_string_harness {
    ($($name:ident = $n:expr, $u:expr;)*) => {$(
        crate::verif_harness! { #[kani::unwind($u)] fn $name() { check_number_string::<$n>() } }
    )*};
}
number_string_harness! {
    c13_numstr_0 = 0, 6; c13_numstr_1 = 1, 7; c13_numstr_2 = 2, 8; c13_numstr_3 = 3, 9; c13_numstr_4 = 4, 10;
    c13_numstr_5 = 5, 11; c13_numstr_6 = 6, 12;
}

// 2^256 boundary in hexadecimal: 64 digits always fit, 65 digits fit only with a leading zero.
fn check_hex_boundary<const D: usize>() {
    let digits: [u8; D] = kani::any();
    let mut text = Vec::with_capacity(2 + D);
    text.push(b'0');
    text.push(b'x');
    let mut be = [0u8; 32];
    let mut i = 0;
    while i < D {
        kani::assume(hex_val(digits[i]).is_some());
        text.push(digits[i]);
        i += 1;
    }
    // value of the last 64 digits
    let mut i = 0;
    while i < 64 {
        let h = hex_val(digits[D - 64 + i]).unwrap();
        be[i / 2] |= if i % 2 == 0 { h << 4 } else { h };
        i += 1;
    }
    let fits = D == 64 || digits[0] == b'0';
    let s = unsafe { String::from_utf8_unchecked(text) };
    let got = num::deserialize(Value::String(s));
    kani::cover!(fits && digits[D - 64] == b'F', "2^256 - 1 region accepted");
    kani::cover!(D == 64 || !fits, "2^256 or more rejected");
    match &got {
        Ok(x) => {
            assert!(fits, "hexadecimal value of 2^256 or more accepted");
            assert!(*x == U256::from_be_bytes(be), "hexadecimal string changed its value");
        }
        Err(_) => assert!(!fits, "hexadecimal value below 2^256 refused"),
    }
    core::mem::forget(got);
}
crate::verif_harness! { #[kani::unwind(70)] fn c13_hex_boundary_64() { check_hex_boundary::<64>() } }
crate::verif_harness! { #[kani::unwind(70)] fn c13_hex_boundary_65() { check_hex_boundary::<65>() } }

// ---------------------------------------------------------------------------------- byte fields
fn check_bytes_field<const N: usize>() {
    let text: [u8; N] = kani::any();
    let mut i = 0;
    while i < N {
        kani::assume(text[i] < 0x80);
        i += 1;
    }
    let s = unsafe { String::from_utf8_unchecked(text.to_vec()) };
    let got = bytes::deserialize(Value::String(s));
    let mut ok = N >= 2 && N % 2 == 0 && text[0] == b'0' && text[1] == b'x';
    let mut exp = [0u8; N];
    if ok {
        let mut i = 2;
        while i < N {
            match (hex_val(text[i]), hex_val(text[i + 1])) {
                (Some(h), Some(l)) => exp[(i - 2) / 2] = (h << 4) | l,
                _ => ok = false,
            }
            i += 2;
        }
    }
    kani::cover!(N < 2 || N % 2 == 1 || ok, "accepted");
    kani::cover!(!ok, "rejected");
    match &got {
        Ok(b) => {
            assert!(ok, "byte field that is not 0x-prefixed even-length hex accepted");
            assert!(b.len() == (N - 2) / 2);
            let mut i = 0;
            while i < b.len() {
                assert!(b[i] == exp[i], "byte field changed its value");
                i += 1;
            }
        }
        Err(_) => assert!(!ok, "well-formed byte field refused"),
    }
    core::mem::forget(got);
}
macro_rules! bytes_field_harness {
    ($($name:ident = $n:expr, $u:expr;)*) => {$(
        crate::verif_harness! { #[kani::unwind($u)] fn $name() { check_bytes_field::<$n>() } }
    )*};
}
bytes_field_harness! {
    c13_bytes_0 = 0, 6; c13_bytes_1 = 1, 7; c13_bytes_2 = 2, 8; c13_bytes_3 = 3, 9; c13_bytes_4 = 4, 10;
    c13_bytes_5 = 5, 11; c13_bytes_6 = 6, 12; c13_bytes_8 = 8, 14;
}

// wrong JSON kinds for a byte field
crate::verif_harness! {
    #[kani::unwind(10)]
    fn c13_bytes_wrong_kind() {
        let which: u8 = kani::any();
        kani::assume(which < 3);
        let value = match which {
            0 => Value::Null,
            1 => Value::Number(Number::from(0u64)),
            _ => Value::Bool(false),
        };
        let got = bytes::deserialize(value);
        kani::cover!(which == 1, "number");
        assert!(got.is_err(), "non-string JSON value accepted as a byte field");
        core::mem::forget(got);
    }
}

// fixed-size byte arrays (storage keys): exactly N bytes
fn check_bytearray<const N: usize, const L: usize>() {
    let data: [u8; L] = kani::any();
    let upper: bool = kani::any();
    let mut s = String::from("0x");
    let alphabet: &[u8; 16] = if upper { b"0123456789ABCDEF" } else { b"0123456789abcdef" };
    let mut i = 0;
    while i < L {
        s.push(alphabet[(data[i] >> 4) as usize] as char);
        s.push(alphabet[(data[i] & 15) as usize] as char);
        i += 1;
    }
    let got: core::result::Result<[u8; N], serde_json::Error> = bytearray::deserialize(Value::String(s));
    kani::cover!(true, "reached");
    match &got {
        Ok(a) => {
            assert!(L == N, "fixed-size byte field of the wrong length accepted");
            assert!(bytes_eq(&a[..], &data[..]));
        }
        Err(_) => assert!(L != N, "fixed-size byte field of the right length refused"),
    }
    core::mem::forget(got);
}
macro_rules! bytearray_harness {
    ($($name:ident = ($n:expr, $l:expr), $u:expr;)*) => {$(
        crate::verif_harness! { #[kani::unwind($u)] fn $name() { check_bytearray::<$n, $l>() } }
    )*};
}
bytearray_harness! {
    c13_slot_31 = (32, 31), 36; c13_slot_32 = (32, 32), 36; c13_slot_33 = (32, 33), 37; c13_slot_0 = (32, 0), 36;
}

// Addresses (the `to` field): ethaddr's Deserialize as the derive code calls it
fn check_address<const L: usize>() {
    let data: [u8; L] = kani::any();
    let prefixed: bool = kani::any();
    let mut s = String::new();
    if prefixed {
        s.push_str("0x");
    }
    let mut i = 0;
    while i < L {
        s.push(b"0123456789abcdef"[(data[i] >> 4) as usize] as char);
        s.push(b"0123456789abcdef"[(data[i] & 15) as usize] as char);
        i += 1;
    }
    let got: core::result::Result<Option<ethaddr::Address>, serde_json::Error> =
        serde::Deserialize::deserialize(Value::String(s));
    kani::cover!(prefixed, "prefixed");
    kani::cover!(!prefixed, "unprefixed");
    match &got {
        Ok(Some(a)) => {
            assert!(L == 20 && prefixed, "address that is not 0x + 20 bytes accepted");
            assert!(bytes_eq(&a.0, &data[..]));
        }
        Ok(None) => panic!("address string deserialized to no recipient"),
        Err(_) => assert!(L != 20 || !prefixed, "well-formed address refused"),
    }
    core::mem::forget(got);
}
crate::verif_harness! { #[kani::unwind(25)] fn c13_address_19() { check_address::<19>() } }
crate::verif_harness! { #[kani::unwind(25)] fn c13_address_20() { check_address::<20>() } }
crate::verif_harness! { #[kani::unwind(25)] fn c13_address_21() { check_address::<21>() } }

// ------------------------------------------------------------------------------------------------
// The same number checks with serde's primitive deserializers as `D` (instantiation
// `num::deserialize::<U64Deserializer<serde_json::Error>>` etc.). The production instantiation is
// `D = serde_json::Value` (harnesses c13_number_* above); its Value-to-Value round trip drags in the
// whole recursive ValueVisitor (a 28-byte token memcmp forces unwind >= 30, no result in 15 min), so
// the quick tier decides hdwallet's own logic (sign guard, delegation) on this lighter instantiation.
use serde::de::value::{F64Deserializer, I64Deserializer, U64Deserializer};

crate::verif_harness! {
    #[kani::unwind(10)]
    fn c13_prim_u64() {
        let v: u64 = kani::any();
        let got = num::deserialize(U64Deserializer::<serde_json::Error>::new(v));
        kani::cover!(v == u64::MAX, "u64 maximum");
        kani::cover!(v == 0, "zero");
        match &got {
            Ok(x) => assert!(*x == U256::new(v as u128), "JSON integer changed its value"),
            Err(_) => panic!("non-negative JSON integer refused"),
        }
        core::mem::forget(got);
    }
}

crate::verif_harness! {
    #[kani::unwind(10)]
    fn c13_prim_i64() {
        let v: i64 = kani::any();
        let got = num::deserialize(I64Deserializer::<serde_json::Error>::new(v));
        kani::cover!(v == -1, "minus one");
        kani::cover!(v == i64::MIN, "i64 minimum");
        kani::cover!(v == i64::MAX, "i64 maximum");
        match &got {
            Ok(x) => {
                assert!(v >= 0, "negative JSON number accepted for an unsigned field");
                assert!(*x == U256::new(v as u128), "JSON integer changed its value");
            }
            Err(_) => assert!(v < 0, "non-negative JSON integer refused"),
        }
        core::mem::forget(got);
    }
}

crate::verif_harness! {
    #[kani::unwind(10)]
    fn c13_prim_f64() {
        let f: f64 = kani::any();
        kani::assume(f.is_finite());
        let got = num::deserialize(F64Deserializer::<serde_json::Error>::new(f));
        const LIMIT: f64 = 9007199254740992.0; // 2^53
        let integral_safe = f >= 0.0 && f < LIMIT && (f as u64) as f64 == f;
        kani::cover!(integral_safe && f > 1e15, "large integral float accepted");
        kani::cover!(f < 0.0 && f > -2.0, "small negative float");
        kani::cover!(f < 0.0 && (f as i64) as f64 == f && f > -100.0, "negative integral float");
        kani::cover!(f > 0.0 && f < 1.0, "fraction");
        kani::cover!(f >= LIMIT, "beyond exactness");
        match &got {
            Ok(x) => {
                assert!(f >= 0.0 || f == 0.0, "negative JSON float accepted for an unsigned field");
                assert!(f < LIMIT, "float beyond the exactly representable range accepted");
                assert!((f as u64) as f64 == f, "fractional JSON float accepted");
                assert!(*x == U256::new((f as u64) as u128), "JSON float changed its value");
            }
            Err(_) => assert!(!integral_safe, "integral JSON float in [0, 2^53) refused"),
        }
        core::mem::forget(got);
    }
}

// JSON floats built from a symbolic integer (keeps the floating-point reasoning to one int->float
// conversion in the harness): every integral float k in (-2^53, 2^53), and every half-integer k + 0.5.
crate::verif_harness! {
    #[kani::unwind(10)]
    fn c13_prim_f64_integral() {
        let k: i64 = kani::any();
        kani::assume(k > -(1i64 << 53) && k < (1i64 << 53));
        let f = k as f64; // exact
        let got = num::deserialize(F64Deserializer::<serde_json::Error>::new(f));
        kani::cover!(k == -1, "minus one point zero");
        kani::cover!(k < -1000, "large negative integral float");
        kani::cover!(k > (1i64 << 52), "large integral float");
        match &got {
            Ok(x) => {
                assert!(k >= 0, "negative JSON float accepted for an unsigned field");
                assert!(*x == U256::new(k as u128), "JSON float changed its value");
            }
            Err(_) => assert!(k < 0, "integral JSON float in [0, 2^53) refused"),
        }
        core::mem::forget(got);
    }
}

crate::verif_harness! {
    #[kani::unwind(10)]
    fn c13_prim_f64_fraction() {
        let k: i64 = kani::any();
        kani::assume(k > -(1i64 << 51) && k < (1i64 << 51));
        let f = k as f64 + 0.5; // exact for |k| < 2^51
        let got = num::deserialize(F64Deserializer::<serde_json::Error>::new(f));
        kani::cover!(k == 0, "one half");
        kani::cover!(k < 0, "negative fraction");
        assert!(got.is_err(), "fractional JSON float accepted");
        core::mem::forget(got);
    }
}

// Small integral floats: f = +/- k for every k in 0..=255 (narrow on purpose: wide symbolic f64 values did
// not finish -- floating-point conversions bit-blast badly -- and this is the region where a sign guard
// that only looks at integer-typed JSON numbers goes wrong: -1.0, -2e0, -1.5e1).
crate::verif_harness! {
    #[kani::unwind(10)]
    fn c13_prim_f64_small() {
        let k: u8 = kani::any();
        let negative: bool = kani::any();
        let f = if negative { -(k as f64) } else { k as f64 };
        let got = num::deserialize(F64Deserializer::<serde_json::Error>::new(f));
        kani::cover!(negative && k == 1, "minus one point zero");
        kani::cover!(!negative && k == 255, "255.0");
        kani::cover!(negative && k == 0, "negative zero");
        match &got {
            Ok(x) => {
                assert!(!negative || k == 0, "negative JSON float accepted for an unsigned field");
                assert!(*x == U256::new(k as u128), "JSON float changed its value");
            }
            Err(_) => assert!(negative && k != 0, "small integral JSON float refused"),
        }
        core::mem::forget(got);
    }
}

// ------------------------------------------------------------------------------------------------
// The string leaves again with the text of error messages cut away (`core::fmt::write` -> writes nothing):
// `de::Error::custom(FromHexError)` renders its message with `to_string()` (char `Debug`, integer `Display`),
// which dominated the cost of every query that can reach an error path.
macro_rules! nofmt_harness {
    ($($name:ident = $u:expr, $call:expr;)*) => {$(
        crate::verif_harness_nofmt! { #[kani::unwind($u)] fn $name() { $call } }
    )*};
}
nofmt_harness! {
    c13n_bytes_2 = 8, check_bytes_field::<2>(); c13n_bytes_3 = 9, check_bytes_field::<3>();
    c13n_bytes_4 = 10, check_bytes_field::<4>(); c13n_bytes_6 = 12, check_bytes_field::<6>();
    c13n_bytes_8 = 14, check_bytes_field::<8>();
    c13n_numstr_1 = 7, check_number_string::<1>(); c13n_numstr_2 = 8, check_number_string::<2>();
    c13n_numstr_3 = 9, check_number_string::<3>(); c13n_numstr_4 = 10, check_number_string::<4>();
    c13n_numstr_6 = 12, check_number_string::<6>();
    c13n_slot_31 = 36, check_bytearray::<32, 31>(); c13n_slot_32 = 36, check_bytearray::<32, 32>();
    c13n_slot_33 = 37, check_bytearray::<32, 33>();
    c13n_address_19 = 25, check_address::<19>(); c13n_address_20 = 25, check_address::<20>();
    c13n_address_21 = 25, check_address::<21>();
}
