//! C04 / C17: Kani harnesses for `account` (spliced into src/account.rs).
#![allow(static_mut_refs)]
use super::*;
use crate::__verif_common::*;

/// Affine coordinates of the generator G, big-endian.
const GX: [u8; 32] = [
    0x79, 0xbe, 0x66, 0x7e, 0xf9, 0xdc, 0xbb, 0xac, 0x55, 0xa0, 0x62, 0x95, 0xce, 0x87, 0x0b, 0x07,
    0x02, 0x9b, 0xfc, 0xdb, 0x2d, 0xce, 0x28, 0xd9, 0x59, 0xf2, 0x81, 0x5b, 0x16, 0xf8, 0x17, 0x98,
];
const GY: [u8; 32] = [
    0x48, 0x3a, 0xda, 0x77, 0x26, 0xa3, 0xc4, 0x65, 0x5d, 0xa4, 0xfb, 0xfc, 0x0e, 0x11, 0x08, 0xa8,
    0xfd, 0x17, 0xb4, 0x48, 0xa6, 0x85, 0x54, 0x19, 0x9c, 0x47, 0xd0, 0x8f, 0xfb, 0x10, 0xd4, 0xb8,
];

fn in_range(x: &[u8; 32]) -> bool {
    scalar_in_range32(x)
}

// PrivateKey::new over byte strings of length L (content symbolic): 32 bytes are accepted iff
// 0 < value < n; other lengths are either rejected or taken as the same big-endian integer
// (left-padded) -- never as a different key. secret() returns the 32-byte big-endian integer.
fn check_new<const L: usize>() {
    let bytes: [u8; L] = kani::any();
    let got = PrivateKey::new(&bytes[..]);
    let mut padded = [0u8; 32];
    if L <= 32 {
        padded[32 - L..].copy_from_slice(&bytes[..]); // concrete sizes
    }
    let valid_int = L <= 32 && in_range(&padded);
    kani::cover!(L != 32 || (got.is_ok() && bytes[0] == 0xff), "large scalar accepted");
    kani::cover!(L != 32 || got.is_err(), "32-byte value rejected");
    kani::cover!(L == 32 || true, "reached");
    match &got {
        Ok(key) => {
            assert!(valid_int, "a byte string that is not an integer in [1, n-1] was accepted");
            let s = key.secret();
            assert!(eq32(&s, &padded), "secret() differs from the big-endian integer given");
        }
        Err(_) => {
            if L == 32 {
                assert!(!valid_int, "a valid 32-byte secret was rejected");
            }
        }
    }
    core::mem::forget(got);
}
macro_rules! new_harness {
    ($($name:ident = $l:expr, $u:expr;)*) => {$(
        crate::verif_harness! { #[kani::unwind($u)] fn $name() { check_new::<$l>() } }
    )*};
}
new_harness! {
    c04_new_00 = 0, 34; c04_new_01 = 1, 34; c04_new_16 = 16, 34; c04_new_23 = 23, 34; c04_new_24 = 24, 34;
    c04_new_31 = 31, 34; c04_new_32 = 32, 34; c04_new_33 = 33, 34; c04_new_40 = 40, 34; c04_new_64 = 64, 34;
}

// ------------------------------------------------------------------------------------------------
// Address / public key: scalar multiplication is an uninterpreted function that records the scalar
// it is asked to multiply and yields the generator; Keccak is a recorder.
static mut MUL_SCALAR: [u8; 32] = [0; 32];
static mut MUL_CALLS: usize = 0;

fn mul_stub(_x: &k256::ProjectivePoint, k: &k256::Scalar) -> k256::ProjectivePoint {
    unsafe {
        MUL_CALLS += 1;
        let b = k.to_bytes();
        MUL_SCALAR.copy_from_slice(&b[..]);
    }
    k256::ProjectivePoint::GENERATOR
}
fn to_affine_stub(_p: &k256::ProjectivePoint) -> k256::AffinePoint {
    k256::AffinePoint::GENERATOR
}

crate::verif_harness! {
    #[kani::stub(k256::arithmetic::mul::mul, mul_stub)]
    #[kani::stub(k256::ProjectivePoint::to_affine, to_affine_stub)]
    #[kani::stub(ethdigest::Digest::of, crate::__verif_common::digest_of_stub80)]
    #[kani::unwind(67)]
    fn c04_address() {
        let secret: [u8; 32] = kani::any();
        kani::assume(in_range(&secret));
        let key = PrivateKey::new(secret).expect("in range");
        let public = key.public().encode_uncompressed();
        let address = key.address();
        kani::cover!(true, "reached");
        if stubs_active() {
            unsafe {
                assert!(MUL_CALLS >= 1, "public key must come from a scalar multiplication");
                assert!(eq32(&MUL_SCALAR, &secret), "the scalar multiplied is not the secret");
            }
            // 65-byte uncompressed SEC1: 0x04 || X || Y
            assert!(public[0] == 0x04);
            assert!(bytes_eq(&public[1..33], &GX) && bytes_eq(&public[33..65], &GY), "uncompressed encoding");
            // address = last 20 bytes of Keccak-256 over the 64 coordinate bytes (tag dropped)
            let mut pre = [0u8; 64];
            pre[..32].copy_from_slice(&GX);
            pre[32..].copy_from_slice(&GY);
            let n = digest_calls();
            assert!(n >= 1);
            let out = unsafe { DLOG_OUT[n - 1] };
            digest_expect80(n - 1, &pre, &out);
            assert!(bytes_eq(&address.0, &out[12..]), "address is not the last 20 bytes of the digest");
        } else {
            use k256::elliptic_curve::sec1::ToEncodedPoint as _;
            let sk = SecretKey::from_slice(&secret).unwrap();
            let enc = sk.public_key().to_encoded_point(false);
            assert!(enc.as_bytes() == &public[..], "uncompressed encoding");
            let d = Digest::of(&enc.as_bytes()[1..]);
            assert!(address[..] == d[12..], "address is not the last 20 bytes of the digest");
        }
    }
}

// Address slicing for EVERY 65-byte uncompressed encoding (assume-guarantee: that
// `encode_uncompressed` returns 04 || X || Y of the key's point is decided by c04_address): the
// hashed bytes are exactly bytes 1..65 whatever X and Y are (e.g. coordinates that start with 0x04
// or 0x00), and the address is the last 20 bytes of the digest.
static mut ENC: [u8; 65] = [0; 65];
fn encode_uncompressed_stub(_key: &PublicKey) -> [u8; 65] {
    unsafe { ENC }
}

crate::verif_harness! {
    #[kani::stub(k256::arithmetic::mul::mul, mul_stub)]
    #[kani::stub(k256::ProjectivePoint::to_affine, to_affine_stub)]
    #[kani::stub(crate::account::public::PublicKey::encode_uncompressed, encode_uncompressed_stub)]
    #[kani::stub(ethdigest::Digest::of, crate::__verif_common::digest_of_stub80)]
    #[kani::unwind(67)]
    fn c04_address_slicing() {
        let mut enc: [u8; 65] = kani::any();
        enc[0] = 0x04;
        unsafe { ENC = enc; }
        let mut secret = [0u8; 32];
        secret[31] = 1;
        let key = PrivateKey::new(secret).expect("one is a valid secret");
        let address = key.address();
        kani::cover!(enc[1] == 0x04 && enc[2] == 0x04, "X starts with 0x04 bytes");
        kani::cover!(enc[1] == 0x00, "X starts with a zero byte");
        if stubs_active() {
            let n = digest_calls();
            assert!(n == 1, "exactly one Keccak invocation");
            let out = unsafe { DLOG_OUT[0] };
            digest_expect80(0, &enc[1..], &out);
            assert!(bytes_eq(&address.0, &out[12..]), "address is not the last 20 bytes of the digest");
        } else {
            // native replay: the witness' coordinates are not a real public key, so search the first
            // secrets for real keys with unusual leading coordinate bytes (45 is the first with X = 04..)
            for k in 1u32..=3000 {
                let mut sec = [0u8; 32];
                sec[28..].copy_from_slice(&k.to_be_bytes());
                let key = PrivateKey::new(sec).unwrap();
                let e = key.public().encode_uncompressed();
                let d = Digest::of(&e[1..]);
                assert!(key.address().0[..] == d[12..], "address is not the last 20 bytes of Keccak over the 64 coordinate bytes");
            }
        }
    }
}
