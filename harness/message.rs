//! C10 / C17: Kani harnesses for `message` (spliced into src/message.rs).
use super::*;
use crate::__verif_common::*;

const PREFIX: &[u8] = b"\x19Ethereum Signed Message:\n";

/// The EIP-191 preimage for `msg`, built independently: prefix, decimal length, message.
fn spec_preimage(msg: &[u8], out: &mut [u8; 192]) -> usize {
    let mut n = PREFIX.len();
    out[..n].copy_from_slice(PREFIX);
    // decimal digits of the length, most significant first, no leading zeros (lengths here are < 1000)
    let len = msg.len();
    if len >= 100 {
        out[n] = b'0' + (len / 100) as u8;
        n += 1;
    }
    if len >= 10 {
        out[n] = b'0' + ((len / 10) % 10) as u8;
        n += 1;
    }
    out[n] = b'0' + (len % 10) as u8;
    n += 1;
    out[n..n + len].copy_from_slice(msg);
    n + len
}

fn check_digest(msg: &[u8]) {
    let got = EthereumMessage(msg).signing_message();
    let mut pre = [0u8; 192];
    let n = spec_preimage(msg, &mut pre);
    if stubs_active() {
        assert!(digest_calls() == 1, "exactly one Keccak invocation");
    }
    digest_expect(0, &pre[..n], &got.0);
}

macro_rules! digest_harness {
    ($($name:ident = $l:expr, $u:expr;)*) => {$(
        crate::verif_harness! {
            #[kani::stub(ethdigest::Digest::of, crate::__verif_common::digest_of_stub)]
            #[kani::unwind($u)]
            fn $name() {
                let msg: [u8; $l] = kani::any();
                check_digest(&msg);
                kani::cover!(true, "reached");
            }
        }
    )*};
}
digest_harness! {
    c10_digest_000 = 0, 14; c10_digest_001 = 1, 14; c10_digest_009 = 9, 14; c10_digest_010 = 10, 14;
    c10_digest_011 = 11, 14; c10_digest_032 = 32, 14; c10_digest_099 = 99, 14; c10_digest_100 = 100, 14;
    c10_digest_101 = 101, 14; c10_digest_064 = 64, 14; c10_digest_127 = 127, 14; c10_digest_128 = 128, 14;
}

// Symbolic length 0..=24 in one query.
crate::verif_harness! {
    #[kani::stub(ethdigest::Digest::of, crate::__verif_common::digest_of_stub)]
    #[kani::unwind(14)]
    fn c10_digest_symlen() {
        let buf: [u8; 24] = kani::any();
        let n: usize = kani::any();
        kani::assume(n <= 24);
        check_digest(&buf[..n]);
        kani::cover!(n == 0, "empty message");
        kani::cover!(n == 9, "one digit");
        kani::cover!(n == 10, "two digits");
        kani::cover!(n == 24 && buf[0] == 0xff && buf[23] == 0x80, "non-UTF-8 content");
    }
}
