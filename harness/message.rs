//! C10 / C17: Kani harnesses for `message` (spliced into src/message.rs).
use super::*;
use crate::__verif_common::*;

const PREFIX: &[u8] = b"\x19Ethereum Signed Message:\n";

/// The EIP-191 preimage for `msg`, built independently: prefix, decimal length, message.
fn spec_preimage(msg: &[u8], out: &mut [u8; 192]) -> usize {
    let mut n = 0;
    while n < PREFIX.len() {
        out[n] = PREFIX[n];
        n += 1;
    }
    // decimal digits of the length, most significant first, no leading zeros
    let len = msg.len();
    let mut div = 1;
    while len / div >= 10 {
        div *= 10;
    }
    while div > 0 {
        out[n] = b'0' + ((len / div) % 10) as u8;
        n += 1;
        div /= 10;
    }
    let mut i = 0;
    while i < msg.len() {
        out[n] = msg[i];
        n += 1;
        i += 1;
    }
    n
}

fn check_digest(msg: &[u8]) {
    let got = EthereumMessage(msg).signing_message();
    let mut pre = [0u8; 192];
    let n = spec_preimage(msg, &mut pre);
    if stubs_active() {
        assert!(digest_calls() == 1, "exactly one Keccak invocation");
    }
    digest_expect(0, &pre[..n], &got.0);
}

macro_rules! digest_harness {
    ($($name:ident = $l:expr, $u:expr;)*) => {$(
        crate::verif_harness! {
            #[kani::stub(ethdigest::Digest::of, crate::__verif_common::digest_of_stub)]
            #[kani::unwind($u)]
            fn $name() {
                let msg: [u8; $l] = kani::any();
                check_digest(&msg);
                kani::cover!(true, "reached");
            }
        }
    )*};
}
digest_harness! {
    c10_digest_000 = 0, 40; c10_digest_001 = 1, 40; c10_digest_009 = 9, 44; c10_digest_010 = 10, 46;
    c10_digest_011 = 11, 46; c10_digest_032 = 32, 66; c10_digest_099 = 99, 134; c10_digest_100 = 100, 136;
    c10_digest_101 = 101, 138; c10_digest_127 = 127, 164; c10_digest_128 = 128, 164;
}

// Symbolic length 0..=24 in one query.
crate::verif_harness! {
    #[kani::stub(ethdigest::Digest::of, crate::__verif_common::digest_of_stub)]
    #[kani::unwind(60)]
    fn c10_digest_symlen() {
        let buf: [u8; 24] = kani::any();
        let n: usize = kani::any();
        kani::assume(n <= 24);
        check_digest(&buf[..n]);
        kani::cover!(n == 0, "empty message");
        kani::cover!(n == 9, "one digit");
        kani::cover!(n == 10, "two digits");
        kani::cover!(n == 24 && buf[0] == 0xff && buf[23] == 0x80, "non-UTF-8 content");
    }
}
