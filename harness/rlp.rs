//! C07 (and the leaf contracts C06 relies on): Kani harnesses for `transaction::rlp`.
//! Spliced into `src/transaction/rlp.rs` as a child module, so the private encoders are visible.
//! Oracles are written without per-byte loops (see common.rs) so that unwind bounds stay small.
use super::*;
use crate::__verif_common::*;

// ---------------------------------------------------------------------------------- rlp::len
// Every length in 0..2^64, both offsets: a strict header decoder returns exactly (kind, len) and
// consumes exactly the emitted bytes.
crate::verif_harness! {
    #[kani::unwind(3)]
    fn c07_len() {
        let n: usize = kani::any();
        let is_list: bool = kani::any();
        let out = len(n, if is_list { 0xc0 } else { 0x80 });
        let dec = rlp_strict_header(&out);
        kani::cover!(n < 56, "short form");
        kani::cover!(n == 55, "55");
        kani::cover!(n == 56, "56");
        kani::cover!(n >= 1 << 56, "eight length bytes");
        kani::cover!(n > 255 && n < 65536, "two length bytes");
        kani::cover!(n == 1 << 24, "2^24");
        match dec {
            Some((l, payload, header)) => {
                assert!(l == is_list, "header kind");
                assert!(payload == n, "decoded length differs");
                assert!(header == out.len(), "header not consumed completely");
            }
            None => panic!("non-canonical RLP length header"),
        }
        // shortest possible: short form iff n < 56, otherwise minimal big-endian length
        if n < 56 {
            assert!(out.len() == 1);
        } else {
            let bytes = ((64 - n.leading_zeros() as usize) + 7) / 8;
            assert!(out.len() == 1 + bytes);
        }
    }
}

// -------------------------------------------------------------------------------- rlp::bytes
// One query per length L (content symbolic): the byte string encodes to itself if it is a single
// byte below 0x80, otherwise to strict-header(L) || content. Nothing else is accepted as output.
fn check_bytes<const L: usize>() {
    let content: [u8; L] = kani::any();
    let out = bytes(&content);
    kani::cover!(true, "reached");
    if L == 1 && content[0] < 0x80 {
        assert!(out.len() == 1 && out[0] == content[0], "single byte below 0x80 must encode as itself");
        return;
    }
    kani::cover!(L != 1 || content[0] == 0x80, "0x80 boundary (L = 1) / reached (other L)");
    let (is_list, payload, header) = rlp_strict_header(&out).expect("canonical header");
    assert!(!is_list);
    assert!(out[0] >= 0x80, "string header expected");
    assert!(payload == L, "payload length");
    assert!(out.len() == header + L, "trailing or missing bytes");
    assert!(bytes_eq(&out[header..], &content), "payload differs");
}

macro_rules! bytes_harness {
    ($($name:ident = $l:expr, $u:expr;)*) => {$(
        crate::verif_harness! {
            #[kani::unwind($u)]
            fn $name() { check_bytes::<$l>() }
        }
    )*};
}
bytes_harness! {
    c07_bytes_000 = 0, 3; c07_bytes_001 = 1, 3; c07_bytes_002 = 2, 3; c07_bytes_003 = 3, 3;
    c07_bytes_020 = 20, 4; c07_bytes_032 = 32, 4; c07_bytes_033 = 33, 4;
    c07_bytes_054 = 54, 5; c07_bytes_055 = 55, 5; c07_bytes_056 = 56, 5; c07_bytes_057 = 57, 5;
    c07_bytes_064 = 64, 6; c07_bytes_100 = 100, 8; c07_bytes_128 = 128, 10;
    c07_bytes_255 = 255, 18; c07_bytes_256 = 256, 18; c07_bytes_257 = 257, 18;
}

// Symbolic length up to 60 in one query (all lengths 0..=60 x all contents, crossing 55/56).
crate::verif_harness! {
    #[kani::unwind(6)]
    fn c07_bytes_symlen() {
        let buf: [u8; 60] = kani::any();
        let l: usize = kani::any();
        kani::assume(l <= 60);
        let content = &buf[..l];
        let out = bytes(content);
        kani::cover!(l == 0, "empty");
        kani::cover!(l == 1 && buf[0] < 0x80, "single small byte");
        kani::cover!(l == 1 && buf[0] >= 0x80, "single large byte");
        kani::cover!(l == 55, "55");
        kani::cover!(l == 56, "56");
        kani::cover!(l == 60, "sixty");
        if l == 1 && content[0] < 0x80 {
            assert!(out.len() == 1 && out[0] == content[0]);
        } else {
            let (is_list, payload, header) = rlp_strict_header(&out).expect("canonical header");
            assert!(!is_list && out[0] >= 0x80);
            assert!(payload == l);
            assert!(out.len() == header + l);
            assert!(bytes_eq_sym::<4>(&out[header..], content));
        }
    }
}

// --------------------------------------------------------------------------------- rlp::uint
// All 2^256 values: canonical integer = big-endian without leading zero bytes, zero = empty string.
crate::verif_harness! {
    #[kani::unwind(4)]
    fn c07_uint() {
        let be: [u8; 32] = kani::any();
        let value = U256::from_be_bytes(be);
        let out = uint(value);
        // minimal byte width from the two 128-bit halves (no loop)
        let hi = u128::from_be_bytes([be[0], be[1], be[2], be[3], be[4], be[5], be[6], be[7], be[8], be[9], be[10], be[11], be[12], be[13], be[14], be[15]]);
        let lo = u128::from_be_bytes([be[16], be[17], be[18], be[19], be[20], be[21], be[22], be[23], be[24], be[25], be[26], be[27], be[28], be[29], be[30], be[31]]);
        let zero_bytes = if hi != 0 { (hi.leading_zeros() / 8) as usize } else { 16 + (lo.leading_zeros() / 8) as usize };
        let width = 32 - zero_bytes; // 0 for zero
        let first = zero_bytes;
        kani::cover!(width == 0, "zero");
        kani::cover!(width == 1 && be[31] < 0x80, "single byte below 0x80");
        kani::cover!(width == 1 && be[31] >= 0x80, "single byte 0x80 or above");
        kani::cover!(width == 32, "full width");
        kani::cover!(width == 17, "crosses the 128-bit limb");
        kani::cover!(width == 16, "exactly one limb");
        if width == 1 && be[31] < 0x80 {
            assert!(out.len() == 1 && out[0] == be[31]);
        } else {
            assert!(out.len() == 1 + width, "integer not minimal");
            assert!(out[0] as usize == 0x80 + width, "integer header");
            assert!(bytes_eq(&out[1..], &be[first..]), "integer digits");
            if width > 0 {
                assert!(out[1] != 0, "leading zero byte");
            }
        }
    }
}

// --------------------------------------------------------------------------------- rlp::list
// list(items) = strict list header(sum of lengths) || concatenation, item lengths concrete per
// query (both sides of the 55/56 boundary), contents symbolic.
fn check_list<const A: usize, const B: usize, const C: usize>(use_iter: bool) {
    let a: [u8; A] = kani::any();
    let b: [u8; B] = kani::any();
    let c: [u8; C] = kani::any();
    let out = if use_iter {
        iter([a.to_vec(), b.to_vec(), c.to_vec()].iter())
    } else {
        list(&[&a, &b, &c])
    };
    kani::cover!(true, "reached");
    let (is_list, payload, header) = rlp_strict_header(&out).expect("canonical list header");
    assert!(is_list, "list header expected");
    assert!(payload == A + B + C, "list payload length");
    assert!(out.len() == header + payload, "trailing or missing bytes");
    assert!(bytes_eq(&out[header..header + A], &a), "first item");
    assert!(bytes_eq(&out[header + A..header + A + B], &b), "second item");
    assert!(bytes_eq(&out[header + A + B..], &c), "third item");
}

macro_rules! list_harness {
    ($($name:ident = ($a:expr, $b:expr, $c:expr), $it:expr, $u:expr;)*) => {$(
        crate::verif_harness! {
            #[kani::unwind($u)]
            fn $name() { check_list::<$a, $b, $c>($it) }
        }
    )*};
}
list_harness! {
    c07_list_0_0_0 = (0, 0, 0), false, 5;
    c07_list_1_0_2 = (1, 0, 2), false, 5;
    c07_list_20_20_15 = (20, 20, 15), false, 5;
    c07_list_21_20_15 = (21, 20, 15), false, 5;
    c07_list_33_33_33 = (33, 33, 33), true, 5;
    c07_iter_1_33_21 = (1, 33, 21), true, 5;
    c07_iter_0_0_0 = (0, 0, 0), true, 5;
    c07_list_130_130_0 = (130, 130, 0), false, 11;
    c07_iter_100_100_56 = (100, 100, 56), true, 9;
}

crate::verif_harness! {
    #[kani::unwind(3)]
    fn c07_list_empty() {
        let out = list(&[]);
        kani::cover!(true, "reached");
        assert!(out.len() == 1 && out[0] == 0xc0);
    }
}
