//! C07 (and the leaf contracts C06 relies on): Kani harnesses for `transaction::rlp`.
//! Spliced into `src/transaction/rlp.rs` as a child module, so the private encoders are visible.
use super::*;
use crate::__verif_common::*;

// ---------------------------------------------------------------------------------- rlp::len
// Every length in 0..2^64, both offsets: a strict header decoder returns exactly (kind, len) and
// consumes exactly the emitted bytes.
crate::verif_harness! {
    #[kani::unwind(10)]
    fn c07_len() {
        let n: usize = kani::any();
        let is_list: bool = kani::any();
        let out = len(n, if is_list { 0xc0 } else { 0x80 });
        let dec = rlp_strict_header(&out);
        kani::cover!(n < 56, "short form");
        kani::cover!(n == 55, "55");
        kani::cover!(n == 56, "56");
        kani::cover!(n >= 1 << 56, "eight length bytes");
        kani::cover!(n > 255 && n < 65536, "two length bytes");
        match dec {
            Some((l, payload, header)) => {
                assert!(l == is_list, "header kind");
                assert!(payload == n, "decoded length differs");
                assert!(header == out.len(), "header not consumed completely");
            }
            None => panic!("non-canonical RLP length header"),
        }
        // shortest possible: short form iff n < 56, otherwise minimal big-endian length
        if n < 56 {
            assert!(out.len() == 1);
        } else {
            let bytes = ((64 - n.leading_zeros() as usize) + 7) / 8;
            assert!(out.len() == 1 + bytes);
        }
    }
}

// -------------------------------------------------------------------------------- rlp::bytes
// One query per length L (content symbolic): the byte string encodes to itself if it is a single
// byte below 0x80, otherwise to strict-header(L) || content. Nothing else is accepted as output.
fn check_bytes<const L: usize>() {
    let content: [u8; L] = kani::any();
    let out = bytes(&content);
    kani::cover!(true, "reached");
    if L == 1 && content[0] < 0x80 {
        assert!(out.len() == 1 && out[0] == content[0], "single byte below 0x80 must encode as itself");
        return;
    }
    kani::cover!(L != 1 || content[0] == 0x80, "0x80 boundary (L = 1) / reached (other L)");
    let (is_list, payload, header) = rlp_strict_header(&out).expect("canonical header");
    assert!(!is_list);
    assert!(out[0] >= 0x80, "string header expected");
    assert!(payload == L, "payload length");
    assert!(out.len() == header + L, "trailing or missing bytes");
    let mut i = 0;
    while i < L {
        assert!(out[header + i] == content[i], "payload byte differs");
        i += 1;
    }
}

macro_rules! bytes_harness {
    ($($name:ident = $l:expr, $u:expr;)*) => {$(
        crate::verif_harness! {
            #[kani::unwind($u)]
            fn $name() { check_bytes::<$l>() }
        }
    )*};
}
bytes_harness! {
    c07_bytes_000 = 0, 10; c07_bytes_001 = 1, 10; c07_bytes_002 = 2, 10; c07_bytes_003 = 3, 10;
    c07_bytes_020 = 20, 22; c07_bytes_032 = 32, 34; c07_bytes_033 = 33, 35;
    c07_bytes_054 = 54, 56; c07_bytes_055 = 55, 57; c07_bytes_056 = 56, 58; c07_bytes_057 = 57, 59;
    c07_bytes_064 = 64, 66; c07_bytes_100 = 100, 102; c07_bytes_128 = 128, 130;
}

// Symbolic length up to 40 in one query (all lengths 0..=40 x all contents).
crate::verif_harness! {
    #[kani::unwind(42)]
    fn c07_bytes_symlen() {
        let buf: [u8; 40] = kani::any();
        let l: usize = kani::any();
        kani::assume(l <= 40);
        let content = &buf[..l];
        let out = bytes(content);
        kani::cover!(l == 0, "empty");
        kani::cover!(l == 1 && buf[0] < 0x80, "single small byte");
        kani::cover!(l == 1 && buf[0] >= 0x80, "single large byte");
        kani::cover!(l == 40, "forty");
        if l == 1 && content[0] < 0x80 {
            assert!(out.len() == 1 && out[0] == content[0]);
        } else {
            let (is_list, payload, header) = rlp_strict_header(&out).expect("canonical header");
            assert!(!is_list && out[0] >= 0x80);
            assert!(payload == l && header == 1);
            assert!(out.len() == 1 + l);
            let mut i = 0;
            while i < l {
                assert!(out[1 + i] == content[i]);
                i += 1;
            }
        }
    }
}

// --------------------------------------------------------------------------------- rlp::uint
// All 2^256 values: canonical integer = big-endian without leading zero bytes, zero = empty string.
crate::verif_harness! {
    #[kani::unwind(35)]
    fn c07_uint() {
        let be: [u8; 32] = kani::any();
        let value = U256::from_be_bytes(be);
        let out = uint(value);
        let mut first = 0;
        while first < 32 && be[first] == 0 {
            first += 1;
        }
        let width = 32 - first; // minimal byte width, 0 for zero
        kani::cover!(width == 0, "zero");
        kani::cover!(width == 1 && be[31] < 0x80, "single byte below 0x80");
        kani::cover!(width == 1 && be[31] >= 0x80, "single byte 0x80 or above");
        kani::cover!(width == 32, "full width");
        kani::cover!(width == 17, "crosses the 128-bit limb");
        if width == 1 && be[31] < 0x80 {
            assert!(out.len() == 1 && out[0] == be[31]);
        } else {
            assert!(out.len() == 1 + width, "integer not minimal");
            assert!(out[0] as usize == 0x80 + width, "integer header");
            let mut i = 0;
            while i < width {
                assert!(out[1 + i] == be[first + i], "integer digits");
                i += 1;
            }
            if width > 0 {
                assert!(out[1] != 0, "leading zero byte");
            }
        }
    }
}

// --------------------------------------------------------------------------------- rlp::list
// list(items) = strict list header(sum of lengths) || concatenation, item lengths concrete per
// query (both sides of the 55/56 boundary), contents symbolic.
fn check_list<const A: usize, const B: usize, const C: usize>(use_iter: bool) {
    let a: [u8; A] = kani::any();
    let b: [u8; B] = kani::any();
    let c: [u8; C] = kani::any();
    let out = if use_iter {
        iter([a.to_vec(), b.to_vec(), c.to_vec()].iter())
    } else {
        list(&[&a, &b, &c])
    };
    kani::cover!(true, "reached");
    let (is_list, payload, header) = rlp_strict_header(&out).expect("canonical list header");
    assert!(is_list, "list header expected");
    assert!(payload == A + B + C, "list payload length");
    assert!(out.len() == header + payload, "trailing or missing bytes");
    let mut i = 0;
    while i < A {
        assert!(out[header + i] == a[i]);
        i += 1;
    }
    let mut i = 0;
    while i < B {
        assert!(out[header + A + i] == b[i]);
        i += 1;
    }
    let mut i = 0;
    while i < C {
        assert!(out[header + A + B + i] == c[i]);
        i += 1;
    }
}

macro_rules! list_harness {
    ($($name:ident = ($a:expr, $b:expr, $c:expr), $it:expr, $u:expr;)*) => {$(
        crate::verif_harness! {
            #[kani::unwind($u)]
            fn $name() { check_list::<$a, $b, $c>($it) }
        }
    )*};
}
list_harness! {
    c07_list_0_0_0 = (0, 0, 0), false, 10;
    c07_list_1_0_2 = (1, 0, 2), false, 10;
    c07_list_20_20_15 = (20, 20, 15), false, 24;
    c07_list_21_20_15 = (21, 20, 15), false, 24;
    c07_list_33_33_33 = (33, 33, 33), true, 36;
    c07_iter_1_33_21 = (1, 33, 21), true, 36;
    c07_iter_0_0_0 = (0, 0, 0), true, 10;
}

crate::verif_harness! {
    #[kani::unwind(10)]
    fn c07_list_empty() {
        let out = list(&[]);
        kani::cover!(true, "reached");
        assert!(out.len() == 1 && out[0] == 0xc0);
    }
}

// A long list (payload 256..: two length bytes) built from two 130-byte items.
crate::verif_harness! {
    #[kani::unwind(132)]
    fn c07_list_long() {
        let a: [u8; 130] = kani::any();
        let b: [u8; 130] = kani::any();
        let out = list(&[&a, &b]);
        kani::cover!(true, "reached");
        assert!(out.len() == 3 + 260);
        assert!(out[0] == 0xf9 && out[1] == 0x01 && out[2] == 0x04);
        let mut i = 0;
        while i < 130 {
            assert!(out[3 + i] == a[i] && out[3 + 130 + i] == b[i]);
            i += 1;
        }
    }
}
