//! C01 / C02 / C12 / C17: Kani harnesses for `mnemonic` (spliced into src/mnemonic.rs).
#![allow(static_mut_refs)]
use super::*;
use crate::__verif_common::*;
use crate::mnemonic::wordlist::__verif as wl;

// ------------------------------------------------------------------------------------------------
// SHA-256 of the entropy (`hash_seed`) as an uninterpreted function.
static mut HASH_SEED_LEN: usize = 0;
static mut HASH_SEED_IN: [u8; 32] = [0; 32];
static mut HASH_SEED_OUT: [u8; 32] = [0; 32];
static mut HASH_SEED_CALLS: usize = 0;

fn hash_seed_stub(seed: &[u8], hash: &mut [u8]) {
    unsafe {
        HASH_SEED_CALLS += 1;
        HASH_SEED_LEN = seed.len();
        let n = if seed.len() < 32 { seed.len() } else { 32 };
        copy_bytes_sym::<2>(&mut HASH_SEED_IN, &seed[..n]);
        let out: [u8; 32] = kani::any();
        HASH_SEED_OUT = out;
        copy_bytes(hash, &out);
    }
}

/// The checksum hash the specification expects for `entropy`: under Kani the recorder's output
/// (after checking that exactly `entropy` was hashed, exactly once); natively real SHA-256.
fn expected_hash(entropy: &[u8]) -> [u8; 32] {
    if stubs_active() {
        unsafe {
            assert!(HASH_SEED_CALLS == 1, "checksum hash must be computed exactly once");
            assert!(HASH_SEED_LEN == entropy.len(), "checksum hashed over the wrong number of bytes");
            assert!(bytes_eq_sym::<2>(&HASH_SEED_IN[..entropy.len()], entropy), "checksum hashed over different bytes than the entropy");
            HASH_SEED_OUT
        }
    } else {
        Sha256::digest(entropy).into()
    }
}

macro_rules! mnemonic_harness {
    ($(#[$m:meta])* fn $name:ident() $body:block) => {
        crate::verif_harness! {
            #[kani::stub(crate::mnemonic::hash_seed, hash_seed_stub)]
            #[kani::stub(crate::mnemonic::wordlist::Wordlist::search, crate::mnemonic::wordlist::Wordlist::__verif_search)]
            #[kani::stub(crate::mnemonic::wordlist::Wordlist::word, crate::mnemonic::wordlist::Wordlist::__verif_word)]
            #[kani::stub(crate::mnemonic::wordlist::for_language, crate::mnemonic::wordlist::__verif::__verif_for_language)]
            $(#[$m])*
            fn $name() $body
        }
    };
}

// ------------------------------------------------------------------------------------- length table
// All 2^64 word counts.
crate::verif_harness! {
    #[kani::unwind(4)]
    fn c01_len_table() {
        let n: usize = kani::any();
        let got = mnemonic_to_byte_length(n);
        let valid = n == 12 || n == 15 || n == 18 || n == 21 || n == 24;
        kani::cover!(valid, "supported count");
        kani::cover!(n == 13, "13");
        kani::cover!(n > 24, "above 24");
        match &got {
            Ok(len) => {
                assert!(valid, "unsupported word count accepted");
                assert!(*len * 3 == n * 4, "entropy length is not 4/3 of the word count");
            }
            Err(_) => assert!(!valid, "supported word count rejected"),
        }
        core::mem::forget(got);
    }
}

// ------------------------------------------------------------------------------------- parsing
const DUMMY_W: &str = "w w w w w w w w w w w w w w w w w w w w w w w w w";
const DUMMY: &str = "a a a a a a a a a a a a a a a a a a a a a a a a a a a a a a a a a a a a a a a a a a a a";

/// Big-endian concatenation of W 11-bit indices.
fn pack_bits<const W: usize>(idx: &[u16; W]) -> [u8; 33] {
    let mut bits = [0u8; 33];
    let mut k = 0;
    while k < W {
        let mut b = 0;
        while b < 11 {
            let bit = ((idx[k] >> (10 - b)) & 1) as u8;
            let pos = k * 11 + b;
            bits[pos / 8] |= bit << (7 - pos % 8);
            b += 1;
        }
        k += 1;
    }
    bits
}

/// Separators used by the "messy layout" variant: every kind of Unicode whitespace the parser must
/// ignore, runs of it, and leading/trailing whitespace.
const SEPS: [&str; 7] = ["\t", "\n", "  ", "\r\n", "\u{3000}", " \u{a0}", "\u{2003}\t "];

fn layout(words: &[&str], messy: bool) -> String {
    if !messy {
        return words.join(" ");
    }
    let mut s = String::from("\n ");
    let mut k = 0;
    while k < words.len() {
        if k > 0 {
            s.push_str(SEPS[k % 7]);
        }
        s.push_str(words[k]);
        k += 1;
    }
    s.push_str(" \t");
    s
}

fn run_unpack<const W: usize>(idx: &[u16; W]) -> bool {
    run_unpack_layout::<W>(idx, false)
}

fn run_unpack_layout<const W: usize>(idx: &[u16; W], messy: bool) -> bool {
    let ent_len = W * 4 / 3;
    let cs_bits = W / 3;
    unsafe {
        wl::SEARCH_POS = 0;
        HASH_SEED_CALLS = 0;
        let mut k = 0;
        while k < W {
            wl::SEARCH_IDX[k] = idx[k];
            k += 1;
        }
    }
    let phrase: String = if stubs_active() {
        if messy {
            layout(&["a"; W], true)
        } else {
            DUMMY[..2 * W - 1].to_string()
        }
    } else {
        // native replay: spell the indices with the real words ("zzzz" is not in the list)
        let list = Language::English.wordlist();
        let mut words = Vec::new();
        for k in 0..W {
            words.push(if (idx[k] as usize) < WORD_COUNT { list.word(idx[k] as usize) } else { "zzzz" });
        }
        layout(&words, messy)
    };
    let got = Mnemonic::from_phrase_str(&phrase);

    let mut all_known = true;
    let mut k = 0;
    while k < W {
        if idx[k] as usize >= WORD_COUNT {
            all_known = false;
        }
        k += 1;
    }
    let accepted = match &got {
        Ok(m) => {
            assert!(all_known, "phrase with a word outside the list accepted");
            let bits = pack_bits::<W>(idx);
            let hash = expected_hash(&bits[..ent_len]);
            let checksum = bits[ent_len] >> (8 - cs_bits);
            assert!(hash[0] >> (8 - cs_bits) == checksum, "phrase with a checksum mismatch accepted");
            assert!(m.len == ent_len, "entropy length");
            assert!(bytes_eq_sym::<2>(&m.buf[..ent_len], &bits[..ent_len]), "entropy differs from the concatenated word indices");
            assert!(bytes_eq(&m.buf[ent_len..ent_len + 32], &hash), "stored checksum hash differs");
            assert!(m.mnemonic_length() == W, "reported length is not the word count");
            true
        }
        Err(_) => {
            if all_known {
                let bits = pack_bits::<W>(idx);
                let hash = expected_hash(&bits[..ent_len]);
                let checksum = bits[ent_len] >> (8 - cs_bits);
                assert!(hash[0] >> (8 - cs_bits) != checksum, "valid phrase rejected");
            }
            false
        }
    };
    core::mem::forget(got);
    accepted
}

fn check_unpack<const W: usize>() {
    let mut idx: [u16; W] = kani::any();
    let mut k = 0;
    while k < W {
        kani::assume(idx[k] as usize <= WORD_COUNT);
        k += 1;
    }
    if stubs_active() {
        let ok = run_unpack::<W>(&idx);
        kani::cover!(ok, "accepted");
        kani::cover!(!ok && idx[W - 1] as usize == WORD_COUNT, "unknown last word rejected");
        kani::cover!(!ok && idx[W - 1] < 2048 && idx[0] < 2048 && idx[W / 2] < 2048, "rejected");
        kani::cover!(ok && idx[0] == 2047 && idx[W - 1] > 1024, "extreme indices accepted");
    } else {
        // native replay: the solver's hash value is not the real SHA-256, so try every candidate for
        // the checksum bits of the final word around the witness
        let cs_bits = W / 3;
        let last = idx[W - 1];
        if (last as usize) < WORD_COUNT {
            for c in 0..(1u16 << cs_bits) {
                idx[W - 1] = (last & !((1 << cs_bits) - 1)) | c;
                run_unpack::<W>(&idx);
            }
        }
        idx[W - 1] = last;
        run_unpack::<W>(&idx);
    }
}

// Whitespace layout is irrelevant: the same decision and the same entropy for a phrase whose words are
// separated by tabs, newlines, CRLF, runs of spaces, U+3000, U+00A0, U+2003, with leading and trailing
// whitespace (layout concrete, word indices and hash symbolic).
fn check_layout<const W: usize>() {
    let idx: [u16; W] = kani::any();
    let mut k = 0;
    while k < W {
        kani::assume(idx[k] as usize <= WORD_COUNT);
        k += 1;
    }
    let ok = run_unpack_layout::<W>(&idx, true);
    kani::cover!(ok, "accepted");
    kani::cover!(!ok && idx[0] < 2048 && idx[W - 1] < 2048 && idx[W / 2] < 2048, "rejected for its checksum");
}
mnemonic_harness! { #[kani::unwind(62)] fn c01_layout_12() { check_layout::<12>() } }
mnemonic_harness! { #[kani::unwind(122)] fn c01_layout_24() { check_layout::<24>() } }

mnemonic_harness! { #[kani::unwind(26)] fn c01_unpack_12() { check_unpack::<12>() } }
mnemonic_harness! { #[kani::unwind(32)] fn c01_unpack_15() { check_unpack::<15>() } }
mnemonic_harness! { #[kani::unwind(38)] fn c01_unpack_18() { check_unpack::<18>() } }
mnemonic_harness! { #[kani::unwind(44)] fn c01_unpack_21() { check_unpack::<21>() } }
mnemonic_harness! { #[kani::unwind(50)] fn c01_unpack_24() { check_unpack::<24>() } }

// Word counts other than the five supported ones: always an error (and never a panic), whatever the
// words are. One query per count, all indices symbolic.
fn check_count<const N: usize, const M: usize>() {
    // M = max(N, 1) words of look-up results are made available
    let idx: [u16; M] = kani::any();
    unsafe {
        wl::SEARCH_POS = 0;
        HASH_SEED_CALLS = 0;
        let mut k = 0;
        while k < M && k < 24 {
            kani::assume(idx[k] as usize <= WORD_COUNT);
            wl::SEARCH_IDX[k] = idx[k];
            k += 1;
        }
    }
    let phrase: String = if N == 0 {
        String::new()
    } else if stubs_active() {
        DUMMY[..2 * N - 1].to_string()
    } else {
        let list = Language::English.wordlist();
        let mut words = Vec::new();
        for k in 0..N {
            let i = idx[k % M] as usize;
            words.push(if i < WORD_COUNT { list.word(i) } else { "zzzz" });
        }
        words.join(" ")
    };
    let got = Mnemonic::from_phrase_str(&phrase);
    kani::cover!(true, "reached");
    assert!(got.is_err(), "phrase with an unsupported word count accepted");
    core::mem::forget(got);
}
macro_rules! count_harness {
    ($($name:ident = $n:expr, $m:expr, $u:expr;)*) => {$(
        mnemonic_harness! { #[kani::unwind($u)] fn $name() { check_count::<$n, $m>() } }
    )*};
}
count_harness! {
    c01_count_00 = 0, 1, 8; c01_count_01 = 1, 1, 8; c01_count_02 = 2, 2, 8; c01_count_03 = 3, 3, 9;
    c01_count_06 = 6, 6, 15; c01_count_09 = 9, 9, 21; c01_count_10 = 10, 10, 23; c01_count_11 = 11, 11, 25;
    c01_count_13 = 13, 13, 29; c01_count_14 = 14, 14, 31; c01_count_16 = 16, 16, 35; c01_count_17 = 17, 17, 37;
    c01_count_19 = 19, 19, 41; c01_count_20 = 20, 20, 43; c01_count_22 = 22, 22, 47; c01_count_23 = 23, 23, 49;
    c01_count_25 = 25, 24, 53; c01_count_26 = 26, 24, 55; c01_count_27 = 27, 24, 57; c01_count_30 = 30, 24, 63;
    c01_count_33 = 33, 24, 69; c01_count_36 = 36, 24, 75; c01_count_40 = 40, 24, 83;
}

// ------------------------------------------------------------------------------------- printing
// to_phrase for every buffer content and each of the five lengths: asks the list for exactly the
// 11-bit big-endian groups of entropy || hash, in order, and joins the words with single spaces.
mnemonic_harness! {
    #[kani::unwind(26)]
    fn c01_to_phrase() {
        let buf: [u8; 64] = kani::any();
        let which: u8 = kani::any();
        kani::assume(which < 5);
        let len = 16 + 4 * which as usize;
        let words = len * 3 / 4;
        let m = Mnemonic { language: Language::English, buf, len };
        unsafe { wl::WORD_POS = 0; }
        assert!(m.mnemonic_length() == words, "reported length");
        let phrase = m.to_phrase();
        kani::cover!(which == 0, "12 words");
        kani::cover!(which == 2, "18 words");
        kani::cover!(which == 4, "24 words");
        // expected indices straight from the bits
        let mut expect = [0usize; 24];
        let mut k = 0;
        while k < words {
            let mut v = 0usize;
            let mut b = 0;
            while b < 11 {
                let pos = k * 11 + b;
                let bit = (buf[pos / 8] >> (7 - pos % 8)) & 1;
                v = (v << 1) | bit as usize;
                b += 1;
            }
            expect[k] = v;
            k += 1;
        }
        if stubs_active() {
            unsafe {
                assert!(wl::WORD_POS == words, "number of words printed");
                let mut k = 0;
                while k < words {
                    assert!(wl::WORD_LOG[k] == expect[k], "printed word index differs from the bits");
                    k += 1;
                }
            }
            let pb = phrase.as_bytes();
            assert!(pb.len() == 2 * words - 1, "separator layout");
            assert!(bytes_eq_sym::<3>(pb, &DUMMY_W.as_bytes()[..2 * words - 1]), "words must be joined by single spaces");
        } else {
            let list = Language::English.wordlist();
            let mut ws = Vec::new();
            for k in 0..words {
                ws.push(list.word(expect[k]));
            }
            assert!(phrase == ws.join(" "), "printed phrase differs");
        }
        // Display is the same text
        core::mem::forget(phrase);
    }
}

// ------------------------------------------------------------------------------------- splitting
// Language::split: tokens are exactly the maximal runs of non-whitespace, in order.
// Every ASCII string of exactly N bytes.
fn check_split<const N: usize>() {
    let text: [u8; N] = kani::any();
    let mut i = 0;
    while i < N {
        kani::assume(text[i] < 0x80);
        i += 1;
    }
    let s = unsafe { core::str::from_utf8_unchecked(&text) };
    let got = Language::split(s);
    // specification
    let ws = |c: u8| matches!(c, b' ' | b'\t' | b'\n' | 0x0b | 0x0c | b'\r');
    let mut starts = [0usize; N];
    let mut ends = [0usize; N];
    let mut nt = 0;
    let mut i = 0;
    while i < N {
        if !ws(text[i]) && (i == 0 || ws(text[i - 1])) {
            starts[nt] = i;
        }
        if !ws(text[i]) && (i + 1 == N || ws(text[i + 1])) {
            ends[nt] = i + 1;
            nt += 1;
        }
        i += 1;
    }
    kani::cover!(N < 5 || nt == 3, "three tokens");
    kani::cover!(nt == 0, "only whitespace");
    kani::cover!(N < 3 || (nt == 1 && starts[0] == 1 && ends[0] == N - 1), "token between whitespace");
    match &got {
        Ok((_, words)) => {
            assert!(words.len() == nt, "number of words");
            let mut k = 0;
            while k < nt {
                let w = words[k].as_bytes();
                assert!(w.len() == ends[k] - starts[k], "word length");
                let mut j = 0;
                while j < w.len() {
                    assert!(w[j] == text[starts[k] + j], "word content");
                    j += 1;
                }
                k += 1;
            }
        }
        Err(_) => panic!("split failed"),
    }
    core::mem::forget(got);
}
crate::verif_harness! { #[kani::unwind(8)] fn c01_split_3() { check_split::<3>() } }
crate::verif_harness! { #[kani::unwind(10)] fn c01_split_5() { check_split::<5>() } }
crate::verif_harness! { #[kani::unwind(12)] fn c01_split_7() { check_split::<7>() } }

// ------------------------------------------------------------------------------------- generation (C12)
// getentropy(3) is the environment: it is asked for some number of bytes, returns an arbitrary
// status and, on success, arbitrary bytes.
static mut ENT_CALLS: usize = 0;
static mut ENT_LEN: usize = 0;
static mut ENT_BYTES: [u8; 32] = [0; 32];
static mut ENT_RC: i32 = 0;

unsafe fn getentropy_stub(buffer: *mut u8, len: usize) -> std::os::raw::c_int {
    ENT_CALLS += 1;
    ENT_LEN = len;
    let rc: i32 = kani::any();
    ENT_RC = rc;
    if rc >= 0 {
        let bytes: [u8; 32] = kani::any();
        ENT_BYTES = bytes;
        let n = if len < 32 { len } else { 32 };
        copy_bytes_sym::<2>(core::slice::from_raw_parts_mut(buffer, n), &bytes[..n]);
    }
    rc
}

mnemonic_harness! {
    #[kani::stub(crate::rand::getentropy, getentropy_stub)]
    #[kani::unwind(5)]
    fn c12_random() {
        let words: usize = kani::any();
        unsafe {
            ENT_CALLS = 0;
            HASH_SEED_CALLS = 0;
        }
        let got = Mnemonic::random(Language::English, words);
        let valid = words == 12 || words == 15 || words == 18 || words == 21 || words == 24;
        if stubs_active() {
            let (calls, req, rc) = unsafe { (ENT_CALLS, ENT_LEN, ENT_RC) };
            kani::cover!(valid && rc >= 0 && words == 24, "24 words generated");
            kani::cover!(valid && rc >= 0 && words == 15, "15 words generated");
            kani::cover!(valid && rc < 0, "entropy source failed");
            kani::cover!(!valid && words > 24, "unsupported length");
            kani::cover!(valid && rc > 0, "positive status treated as success");
            match &got {
                Ok(m) => {
                    assert!(valid, "unsupported length accepted");
                    assert!(calls == 1, "exactly one entropy request per generation");
                    assert!(rc >= 0, "entropy failure ignored");
                    assert!(req == words * 4 / 3, "entropy request is not 4/3 bytes per word");
                    assert!(m.len == req, "entropy length");
                    let ent = unsafe { ENT_BYTES };
                    assert!(req <= 32);
                    assert!(bytes_eq_sym::<2>(&m.buf[..req], &ent[..req]), "entropy byte does not come from the OS source");
                    let hash = expected_hash(&ent[..req]);
                    assert!(bytes_eq(&m.buf[req..req + 32], &hash), "checksum is not the hash of the entropy");
                    assert!(m.mnemonic_length() == words, "reported length");
                }
                Err(_) => {
                    assert!(!valid || (calls == 1 && rc < 0), "generation failed although the entropy source succeeded");
                    assert!(valid || calls == 0, "entropy requested for an unsupported length");
                }
            }
        } else {
            // native replay: the real getentropy cannot be injected; check what can be observed
            match &got {
                Ok(m) => {
                    assert!(valid, "unsupported length accepted");
                    assert!(m.mnemonic_length() == words && m.len == words * 4 / 3);
                    let hash: [u8; 32] = Sha256::digest(&m.buf[..m.len]).into();
                    assert!(m.buf[m.len..m.len + 32] == hash, "checksum is not the hash of the entropy");
                    let back = Mnemonic::from_phrase_str(&m.to_phrase()).expect("generated phrase must parse back");
                    assert!(back.buf == m.buf && back.len == m.len);
                    // no entropy byte may be constant or repeated across invocations
                    let mut varies = [false; 32];
                    for _ in 0..64 {
                        let o = Mnemonic::random(Language::English, words).unwrap();
                        for i in 0..m.len {
                            if o.buf[i] != m.buf[i] {
                                varies[i] = true;
                            }
                        }
                    }
                    assert!(varies[..m.len].iter().all(|v| *v), "an entropy byte is constant across invocations");
                }
                Err(_) => assert!(!valid, "generation failed for a supported length"),
            }
        }
        core::mem::forget(got);
    }
}

// rand::get_entropy on its own: one request for exactly the slice, negative status -> Err.
mnemonic_harness! {
    #[kani::stub(crate::rand::getentropy, getentropy_stub)]
    #[kani::unwind(5)]
    fn c12_get_entropy() {
        let n: usize = kani::any();
        kani::assume(n <= 32);
        let mut buf = [0u8; 32];
        unsafe { ENT_CALLS = 0; }
        let got = crate::rand::get_entropy(&mut buf[..n]);
        if stubs_active() {
            let (calls, req, rc) = unsafe { (ENT_CALLS, ENT_LEN, ENT_RC) };
            kani::cover!(rc < 0, "failure");
            kani::cover!(rc >= 0 && n == 32, "32 bytes");
            assert!(calls == 1 && req == n);
            assert!(got.is_ok() == (rc >= 0), "status mapping");
            if got.is_ok() {
                let ent = unsafe { ENT_BYTES };
                assert!(bytes_eq_sym::<2>(&buf[..n], &ent[..n]));
            }
        } else {
            assert!(got.is_ok());
        }
        core::mem::forget(got);
    }
}

// ------------------------------------------------------------------------------------- seed (C02)
// PBKDF2 is an uninterpreted function: the harness decides which password, salt, round count, PRF
// and output length it is called with, and that its output is returned unchanged.
static mut PB_CALLS: usize = 0;
static mut PB_PASS: [u8; 64] = [0; 64];
static mut PB_PASS_LEN: usize = 0;
static mut PB_SALT: [u8; 48] = [0; 48];
static mut PB_SALT_LEN: usize = 0;
static mut PB_ROUNDS: u32 = 0;
static mut PB_OUT_LEN: usize = 0;
static mut PB_OUT: [u8; 64] = [0; 64];
static mut PB_PRF_OK: bool = false;

fn pbkdf2_stub<PRF>(password: &[u8], salt: &[u8], rounds: u32, res: &mut [u8]) -> core::result::Result<(), hmac::digest::InvalidLength>
where
    PRF: hmac::digest::KeyInit + hmac::digest::Update + hmac::digest::FixedOutput + Clone + Sync,
{
    unsafe {
        PB_CALLS += 1;
        PB_PASS_LEN = password.len();
        let n = if password.len() < 64 { password.len() } else { 64 };
        copy_bytes_sym::<4>(&mut PB_PASS, &password[..n]);
        PB_SALT_LEN = salt.len();
        let n = if salt.len() < 48 { salt.len() } else { 48 };
        copy_bytes_sym::<3>(&mut PB_SALT, &salt[..n]);
        PB_ROUNDS = rounds;
        PB_OUT_LEN = res.len();
        PB_PRF_OK = core::any::type_name::<PRF>() == core::any::type_name::<Hmac<Sha512>>();
        let out: [u8; 64] = kani::any();
        PB_OUT = out;
        let n = if res.len() < 64 { res.len() } else { 64 };
        copy_bytes_sym::<4>(res, &out[..n]);
    }
    Ok(())
}

/// Passphrase palette with the NFKD decomposition and canonical combining classes taken from the
/// Unicode Character Database (generated with Python's unicodedata, independent of the
/// unicode-normalization crate): ASCII, precomposed accent, full-width, ligature, enclosed digit,
/// astral plane, two combining marks of different classes, a compatibility letter whose
/// decomposition carries a mark, and a Hangul syllable (algorithmic decomposition).
const PALETTE: [(u32, [u32; 3], usize); 10] = [
    (0x61, [0x61, 0, 0], 1),
    (0xC5, [0x41, 0x30A, 0], 2),
    (0xFF46, [0x66, 0, 0], 1),
    (0xFB01, [0x66, 0x69, 0], 2),
    (0x2460, [0x31, 0, 0], 1),
    (0x1F600, [0x1F600, 0, 0], 1),
    (0x301, [0x301, 0, 0], 1),
    (0x323, [0x323, 0, 0], 1),
    (0x1E9B, [0x73, 0x307, 0], 2),
    (0xAC01, [0x1100, 0x1161, 0x11A8], 3),
];
fn ccc(c: u32) -> u8 {
    match c {
        0x30A | 0x301 | 0x307 => 230,
        0x323 => 220,
        _ => 0,
    }
}
fn push_utf8(out: &mut [u8; 48], at: usize, c: u32) -> usize {
    if c < 0x80 {
        out[at] = c as u8;
        at + 1
    } else if c < 0x800 {
        out[at] = 0xC0 | (c >> 6) as u8;
        out[at + 1] = 0x80 | (c & 0x3F) as u8;
        at + 2
    } else if c < 0x10000 {
        out[at] = 0xE0 | (c >> 12) as u8;
        out[at + 1] = 0x80 | ((c >> 6) & 0x3F) as u8;
        out[at + 2] = 0x80 | (c & 0x3F) as u8;
        at + 3
    } else {
        out[at] = 0xF0 | (c >> 18) as u8;
        out[at + 1] = 0x80 | ((c >> 12) & 0x3F) as u8;
        out[at + 2] = 0x80 | ((c >> 6) & 0x3F) as u8;
        out[at + 3] = 0x80 | (c & 0x3F) as u8;
        at + 4
    }
}

fn check_seed<const P: usize>() {
    let choice: [u8; P] = kani::any();
    check_seed_with::<P>(choice)
}

fn check_seed_with<const P: usize>(choice: [u8; P]) {
    let buf: [u8; 64] = kani::any();
    let which: u8 = kani::any();
    kani::assume(which < 5);
    let len = 16 + 4 * which as usize;
    let words = len * 3 / 4;
    let m = Mnemonic { language: Language::English, buf, len };
    let mut pass = String::new();
    let mut k = 0;
    while k < P {
        kani::assume((choice[k] as usize) < PALETTE.len());
        // one concrete push per arm
        match choice[k] {
            0 => pass.push('\u{61}'),
            1 => pass.push('\u{C5}'),
            2 => pass.push('\u{FF46}'),
            3 => pass.push('\u{FB01}'),
            4 => pass.push('\u{2460}'),
            5 => pass.push('\u{1F600}'),
            6 => pass.push('\u{301}'),
            7 => pass.push('\u{323}'),
            8 => pass.push('\u{1E9B}'),
            _ => pass.push('\u{AC01}'),
        }
        k += 1;
    }
    unsafe {
        PB_CALLS = 0;
        wl::WORD_POS = 0;
    }
    let seed = m.seed(&pass);
    // expected salt: "mnemonic" || UTF-8(NFKD(passphrase))
    let mut cps = [0u32; 10];
    let mut n = 0;
    let mut k = 0;
    while k < P {
        let (_, d, dl) = PALETTE[choice[k] as usize];
        let mut j = 0;
        while j < dl {
            cps[n] = d[j];
            n += 1;
            j += 1;
        }
        k += 1;
    }
    // canonical ordering: stable sort of combining marks by class
    let mut pass_no = 0;
    while pass_no < n {
        let mut i = 1;
        while i < n {
            let (a, b) = (ccc(cps[i - 1]), ccc(cps[i]));
            if b != 0 && a > b {
                let t = cps[i - 1];
                cps[i - 1] = cps[i];
                cps[i] = t;
            }
            i += 1;
        }
        pass_no += 1;
    }
    let mut salt = [0u8; 48];
    salt[..8].copy_from_slice(b"mnemonic");
    let mut sl = 8;
    let mut i = 0;
    while i < n {
        sl = push_utf8(&mut salt, sl, cps[i]);
        i += 1;
    }
    kani::cover!(which == 2, "18 words");
    kani::cover!(which == 4, "24 words");
    if stubs_active() {
        unsafe {
            assert!(PB_CALLS == 1, "exactly one key stretching call");
            assert!(PB_ROUNDS == 2048, "PBKDF2 round count");
            assert!(PB_OUT_LEN == 64, "seed length");
            assert!(PB_PRF_OK, "PRF must be HMAC-SHA512");
            // password = canonical phrase of the stored entropy: W one-letter tokens joined by single spaces
            // (the word stub prints "w"; which words are printed is decided by c01_to_phrase)
            assert!(PB_PASS_LEN == 2 * words - 1, "password is not the canonical phrase");
            assert!(bytes_eq_sym::<4>(&PB_PASS[..PB_PASS_LEN], &DUMMY_W.as_bytes()[..2 * words - 1]), "password is not the canonical phrase");
            assert!(wl::WORD_POS == words, "phrase must be rendered once from the stored entropy");
            assert!(PB_SALT_LEN == sl, "salt length differs from 'mnemonic' + NFKD(passphrase)");
            assert!(bytes_eq_sym::<3>(&PB_SALT[..sl], &salt[..sl]), "salt differs from 'mnemonic' + NFKD(passphrase)");
            assert!(bytes_eq(&seed[..], &PB_OUT), "seed is not the PBKDF2 output");
        }
    } else {
        let mut expect = [0u8; 64];
        pbkdf2::pbkdf2::<Hmac<Sha512>>(m.to_phrase().as_bytes(), &salt[..sl], 2048, &mut expect).unwrap();
        assert!(*seed == expect, "seed differs from PBKDF2(phrase, 'mnemonic' + NFKD(passphrase))");
    }
}

macro_rules! seed_harness {
    ($($name:ident = $p:expr, $u:expr;)*) => {$(
        crate::verif_harness_realfmt! {
            #[kani::stub(pbkdf2::pbkdf2, pbkdf2_stub)]
            #[kani::stub(crate::mnemonic::wordlist::Wordlist::word, crate::mnemonic::wordlist::Wordlist::__verif_word)]
            #[kani::stub(crate::mnemonic::wordlist::for_language, crate::mnemonic::wordlist::__verif::__verif_for_language)]
            #[kani::unwind($u)]
            fn $name() { check_seed::<$p>() }
        }
    )*};
}
seed_harness! { c02_seed_p0 = 0, 28; c02_seed_p1 = 1, 28; c02_seed_p2 = 2, 28; c02_seed_p3 = 3, 28; }


// Concrete passphrases (one query each; the entropy buffer and length stay symbolic): every palette
// character on its own, the empty passphrase, and sequences that need canonical reordering across
// characters. Fallback for c02_seed_pP, whose symbolic character choice did not finish within 30 min.
macro_rules! seed_fixed_harness {
    ($($name:ident = $p:expr, $choice:expr;)*) => {$(
        crate::verif_harness_realfmt! {
            #[kani::stub(pbkdf2::pbkdf2, pbkdf2_stub)]
            #[kani::stub(crate::mnemonic::wordlist::Wordlist::word, crate::mnemonic::wordlist::Wordlist::__verif_word)]
            #[kani::stub(crate::mnemonic::wordlist::for_language, crate::mnemonic::wordlist::__verif::__verif_for_language)]
            #[kani::unwind(28)]
            fn $name() { check_seed_with::<$p>($choice) }
        }
    )*};
}
macro_rules! seed_fixed_cap_harness {
    ($($name:ident = $p:expr, $choice:expr;)*) => {$(
        crate::verif_harness_realfmt! {
            #[kani::stub(pbkdf2::pbkdf2, pbkdf2_stub)]
            #[kani::stub(crate::mnemonic::wordlist::Wordlist::word, crate::mnemonic::wordlist::Wordlist::__verif_word)]
            #[kani::stub(crate::mnemonic::wordlist::for_language, crate::mnemonic::wordlist::__verif::__verif_for_language)]
            #[kani::stub(alloc::string::String::new, crate::__verif_common::string_new_stub)]
            #[kani::stub(alloc::string::String::push, crate::__verif_common::string_push_stub)]
            #[kani::stub(alloc::string::String::push_str, crate::__verif_common::string_push_str_stub)]
            #[kani::unwind(28)]
            fn $name() { check_seed_with::<$p>($choice) }
        }
    )*};
}
seed_fixed_cap_harness! {
    c02_cap_empty = 0, [];
    c02_cap_ascii = 1, [0];
    c02_cap_accent = 1, [1];
}
seed_fixed_harness! {
    c02_fixed_empty = 0, [];
    c02_fixed_ascii = 1, [0];
    c02_fixed_accent = 1, [1];
    c02_fixed_fullwidth = 1, [2];
    c02_fixed_ligature = 1, [3];
    c02_fixed_enclosed = 1, [4];
    c02_fixed_astral = 1, [5];
    c02_fixed_mark = 2, [0, 6];
    c02_fixed_reorder = 3, [0, 6, 7];
    c02_fixed_compat_reorder = 2, [8, 7];
    c02_fixed_hangul = 1, [9];
    c02_fixed_mixed = 3, [2, 1, 3];
}
