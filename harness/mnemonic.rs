//! C01 / C02 / C12 / C17: Kani harnesses for `mnemonic` (spliced into src/mnemonic.rs).
#![allow(static_mut_refs)]
use super::*;
use crate::__verif_common::*;
use crate::mnemonic::wordlist::__verif as wl;

// ------------------------------------------------------------------------------------------------
// SHA-256 of the entropy (`hash_seed`) as an uninterpreted function.
static mut HASH_SEED_LEN: usize = 0;
static mut HASH_SEED_IN: [u8; 32] = [0; 32];
static mut HASH_SEED_OUT: [u8; 32] = [0; 32];
static mut HASH_SEED_CALLS: usize = 0;

fn hash_seed_stub(seed: &[u8], hash: &mut [u8]) {
    unsafe {
        HASH_SEED_CALLS += 1;
        HASH_SEED_LEN = seed.len();
        let mut i = 0;
        while i < seed.len() && i < 32 {
            HASH_SEED_IN[i] = seed[i];
            i += 1;
        }
        let out: [u8; 32] = kani::any();
        HASH_SEED_OUT = out;
        let mut i = 0;
        while i < 32 {
            hash[i] = out[i];
            i += 1;
        }
    }
}

/// The checksum hash the specification expects for `entropy`: under Kani the recorder's output
/// (after checking that exactly `entropy` was hashed, exactly once); natively real SHA-256.
fn expected_hash(entropy: &[u8]) -> [u8; 32] {
    if stubs_active() {
        unsafe {
            assert!(HASH_SEED_CALLS == 1, "checksum hash must be computed exactly once");
            assert!(HASH_SEED_LEN == entropy.len(), "checksum hashed over the wrong number of bytes");
            let mut i = 0;
            while i < entropy.len() {
                assert!(HASH_SEED_IN[i] == entropy[i], "checksum hashed over different bytes than the entropy");
                i += 1;
            }
            HASH_SEED_OUT
        }
    } else {
        Sha256::digest(entropy).into()
    }
}

macro_rules! mnemonic_harness {
    ($(#[$m:meta])* fn $name:ident() $body:block) => {
        crate::verif_harness! {
            #[kani::stub(crate::mnemonic::hash_seed, hash_seed_stub)]
            #[kani::stub(crate::mnemonic::wordlist::Wordlist::search, crate::mnemonic::wordlist::Wordlist::__verif_search)]
            #[kani::stub(crate::mnemonic::wordlist::Wordlist::word, crate::mnemonic::wordlist::Wordlist::__verif_word)]
            #[kani::stub(crate::mnemonic::wordlist::for_language, crate::mnemonic::wordlist::__verif::__verif_for_language)]
            $(#[$m])*
            fn $name() $body
        }
    };
}

// ------------------------------------------------------------------------------------- length table
// All 2^64 word counts.
crate::verif_harness! {
    #[kani::unwind(4)]
    fn c01_len_table() {
        let n: usize = kani::any();
        let got = mnemonic_to_byte_length(n);
        let valid = n == 12 || n == 15 || n == 18 || n == 21 || n == 24;
        kani::cover!(valid, "supported count");
        kani::cover!(n == 13, "13");
        kani::cover!(n > 24, "above 24");
        match &got {
            Ok(len) => {
                assert!(valid, "unsupported word count accepted");
                assert!(*len * 3 == n * 4, "entropy length is not 4/3 of the word count");
            }
            Err(_) => assert!(!valid, "supported word count rejected"),
        }
        core::mem::forget(got);
    }
}

// ------------------------------------------------------------------------------------- parsing
const DUMMY: &str = "a a a a a a a a a a a a a a a a a a a a a a a a a a a a a a a a a a a a a a a a a a a a";

/// Big-endian concatenation of W 11-bit indices.
fn pack_bits<const W: usize>(idx: &[u16; W]) -> [u8; 33] {
    let mut bits = [0u8; 33];
    let mut k = 0;
    while k < W {
        let mut b = 0;
        while b < 11 {
            let bit = ((idx[k] >> (10 - b)) & 1) as u8;
            let pos = k * 11 + b;
            bits[pos / 8] |= bit << (7 - pos % 8);
            b += 1;
        }
        k += 1;
    }
    bits
}

fn run_unpack<const W: usize>(idx: &[u16; W]) -> bool {
    let ent_len = W * 4 / 3;
    let cs_bits = W / 3;
    unsafe {
        wl::SEARCH_POS = 0;
        HASH_SEED_CALLS = 0;
        let mut k = 0;
        while k < W {
            wl::SEARCH_IDX[k] = idx[k];
            k += 1;
        }
    }
    let phrase: String = if stubs_active() {
        DUMMY[..2 * W - 1].to_string()
    } else {
        // native replay: spell the indices with the real words ("zzzz" is not in the list)
        let list = Language::English.wordlist();
        let mut words = Vec::new();
        for k in 0..W {
            words.push(if (idx[k] as usize) < WORD_COUNT { list.word(idx[k] as usize) } else { "zzzz" });
        }
        words.join(" ")
    };
    let got = Mnemonic::from_phrase_str(&phrase);

    let mut all_known = true;
    let mut k = 0;
    while k < W {
        if idx[k] as usize >= WORD_COUNT {
            all_known = false;
        }
        k += 1;
    }
    let accepted = match &got {
        Ok(m) => {
            assert!(all_known, "phrase with a word outside the list accepted");
            let bits = pack_bits::<W>(idx);
            let hash = expected_hash(&bits[..ent_len]);
            let checksum = bits[ent_len] >> (8 - cs_bits);
            assert!(hash[0] >> (8 - cs_bits) == checksum, "phrase with a checksum mismatch accepted");
            assert!(m.len == ent_len, "entropy length");
            let mut i = 0;
            while i < ent_len {
                assert!(m.buf[i] == bits[i], "entropy differs from the concatenated word indices");
                i += 1;
            }
            let mut i = 0;
            while i < 32 {
                assert!(m.buf[ent_len + i] == hash[i], "stored checksum hash differs");
                i += 1;
            }
            assert!(m.mnemonic_length() == W, "reported length is not the word count");
            true
        }
        Err(_) => {
            if all_known {
                let bits = pack_bits::<W>(idx);
                let hash = expected_hash(&bits[..ent_len]);
                let checksum = bits[ent_len] >> (8 - cs_bits);
                assert!(hash[0] >> (8 - cs_bits) != checksum, "valid phrase rejected");
            }
            false
        }
    };
    core::mem::forget(got);
    accepted
}

fn check_unpack<const W: usize>() {
    let mut idx: [u16; W] = kani::any();
    let mut k = 0;
    while k < W {
        kani::assume(idx[k] as usize <= WORD_COUNT);
        k += 1;
    }
    if stubs_active() {
        let ok = run_unpack::<W>(&idx);
        kani::cover!(ok, "accepted");
        kani::cover!(!ok && idx[W - 1] as usize == WORD_COUNT, "unknown last word rejected");
        kani::cover!(!ok && idx[W - 1] < 2048 && idx[0] < 2048 && idx[W / 2] < 2048, "rejected");
        kani::cover!(ok && idx[0] == 2047 && idx[W - 1] > 1024, "extreme indices accepted");
    } else {
        // native replay: the solver's hash value is not the real SHA-256, so try every candidate for
        // the checksum bits of the final word around the witness
        let cs_bits = W / 3;
        let last = idx[W - 1];
        if (last as usize) < WORD_COUNT {
            for c in 0..(1u16 << cs_bits) {
                idx[W - 1] = (last & !((1 << cs_bits) - 1)) | c;
                run_unpack::<W>(&idx);
            }
        }
        idx[W - 1] = last;
        run_unpack::<W>(&idx);
    }
}

mnemonic_harness! { #[kani::unwind(50)] fn c01_unpack_12() { check_unpack::<12>() } }
mnemonic_harness! { #[kani::unwind(62)] fn c01_unpack_15() { check_unpack::<15>() } }
mnemonic_harness! { #[kani::unwind(74)] fn c01_unpack_18() { check_unpack::<18>() } }
mnemonic_harness! { #[kani::unwind(86)] fn c01_unpack_21() { check_unpack::<21>() } }
mnemonic_harness! { #[kani::unwind(98)] fn c01_unpack_24() { check_unpack::<24>() } }

// Word counts other than the five supported ones: always an error (and never a panic), whatever the
// words are. One query per count, all indices symbolic.
fn check_count<const N: usize, const M: usize>() {
    // M = max(N, 1) words of look-up results are made available
    let idx: [u16; M] = kani::any();
    unsafe {
        wl::SEARCH_POS = 0;
        HASH_SEED_CALLS = 0;
        let mut k = 0;
        while k < M && k < 24 {
            kani::assume(idx[k] as usize <= WORD_COUNT);
            wl::SEARCH_IDX[k] = idx[k];
            k += 1;
        }
    }
    let phrase: String = if N == 0 {
        String::new()
    } else if stubs_active() {
        DUMMY[..2 * N - 1].to_string()
    } else {
        let list = Language::English.wordlist();
        let mut words = Vec::new();
        for k in 0..N {
            let i = idx[k % M] as usize;
            words.push(if i < WORD_COUNT { list.word(i) } else { "zzzz" });
        }
        words.join(" ")
    };
    let got = Mnemonic::from_phrase_str(&phrase);
    kani::cover!(true, "reached");
    assert!(got.is_err(), "phrase with an unsupported word count accepted");
    core::mem::forget(got);
}
macro_rules! count_harness {
    ($($name:ident = $n:expr, $m:expr, $u:expr;)*) => {$(
        mnemonic_harness! { #[kani::unwind($u)] fn $name() { check_count::<$n, $m>() } }
    )*};
}
count_harness! {
    c01_count_00 = 0, 1, 8; c01_count_01 = 1, 1, 8; c01_count_02 = 2, 2, 10; c01_count_03 = 3, 3, 12;
    c01_count_06 = 6, 6, 18; c01_count_09 = 9, 9, 24; c01_count_10 = 10, 10, 26; c01_count_11 = 11, 11, 28;
    c01_count_13 = 13, 13, 54; c01_count_14 = 14, 14, 58; c01_count_16 = 16, 16, 66; c01_count_17 = 17, 17, 70;
    c01_count_19 = 19, 19, 78; c01_count_20 = 20, 20, 82; c01_count_22 = 22, 22, 90; c01_count_23 = 23, 23, 94;
    c01_count_25 = 25, 24, 56; c01_count_26 = 26, 24, 58; c01_count_27 = 27, 24, 60; c01_count_30 = 30, 24, 66;
    c01_count_33 = 33, 24, 72; c01_count_36 = 36, 24, 78; c01_count_40 = 40, 24, 86;
}

// ------------------------------------------------------------------------------------- printing
// to_phrase for every buffer content and each of the five lengths: asks the list for exactly the
// 11-bit big-endian groups of entropy || hash, in order, and joins the words with single spaces.
mnemonic_harness! {
    #[kani::unwind(50)]
    fn c01_to_phrase() {
        let buf: [u8; 64] = kani::any();
        let which: u8 = kani::any();
        kani::assume(which < 5);
        let len = 16 + 4 * which as usize;
        let words = len * 3 / 4;
        let m = Mnemonic { language: Language::English, buf, len };
        unsafe { wl::WORD_POS = 0; }
        assert!(m.mnemonic_length() == words, "reported length");
        let phrase = m.to_phrase();
        kani::cover!(which == 0, "12 words");
        kani::cover!(which == 2, "18 words");
        kani::cover!(which == 4, "24 words");
        // expected indices straight from the bits
        let mut expect = [0usize; 24];
        let mut k = 0;
        while k < words {
            let mut v = 0usize;
            let mut b = 0;
            while b < 11 {
                let pos = k * 11 + b;
                let bit = (buf[pos / 8] >> (7 - pos % 8)) & 1;
                v = (v << 1) | bit as usize;
                b += 1;
            }
            expect[k] = v;
            k += 1;
        }
        if stubs_active() {
            unsafe {
                assert!(wl::WORD_POS == words, "number of words printed");
                let mut k = 0;
                while k < words {
                    assert!(wl::WORD_LOG[k] == expect[k], "printed word index differs from the bits");
                    k += 1;
                }
            }
            let pb = phrase.as_bytes();
            assert!(pb.len() == 2 * words - 1, "separator layout");
            let mut i = 0;
            while i < pb.len() {
                assert!(pb[i] == if i % 2 == 0 { b'w' } else { b' ' }, "words must be joined by single spaces");
                i += 1;
            }
        } else {
            let list = Language::English.wordlist();
            let mut ws = Vec::new();
            for k in 0..words {
                ws.push(list.word(expect[k]));
            }
            assert!(phrase == ws.join(" "), "printed phrase differs");
        }
        // Display is the same text
        core::mem::forget(phrase);
    }
}

// ------------------------------------------------------------------------------------- splitting
// Language::split: tokens are exactly the maximal runs of non-whitespace, in order.
// Every ASCII string of exactly N bytes.
fn check_split<const N: usize>() {
    let text: [u8; N] = kani::any();
    let mut i = 0;
    while i < N {
        kani::assume(text[i] < 0x80);
        i += 1;
    }
    let s = unsafe { core::str::from_utf8_unchecked(&text) };
    let got = Language::split(s);
    // specification
    let ws = |c: u8| matches!(c, b' ' | b'\t' | b'\n' | 0x0b | 0x0c | b'\r');
    let mut starts = [0usize; N];
    let mut ends = [0usize; N];
    let mut nt = 0;
    let mut i = 0;
    while i < N {
        if !ws(text[i]) && (i == 0 || ws(text[i - 1])) {
            starts[nt] = i;
        }
        if !ws(text[i]) && (i + 1 == N || ws(text[i + 1])) {
            ends[nt] = i + 1;
            nt += 1;
        }
        i += 1;
    }
    kani::cover!(N < 5 || nt == 3, "three tokens");
    kani::cover!(nt == 0, "only whitespace");
    kani::cover!(N < 3 || (nt == 1 && starts[0] == 1 && ends[0] == N - 1), "token between whitespace");
    match &got {
        Ok((_, words)) => {
            assert!(words.len() == nt, "number of words");
            let mut k = 0;
            while k < nt {
                let w = words[k].as_bytes();
                assert!(w.len() == ends[k] - starts[k], "word length");
                let mut j = 0;
                while j < w.len() {
                    assert!(w[j] == text[starts[k] + j], "word content");
                    j += 1;
                }
                k += 1;
            }
        }
        Err(_) => panic!("split failed"),
    }
    core::mem::forget(got);
}
crate::verif_harness! { #[kani::unwind(8)] fn c01_split_3() { check_split::<3>() } }
crate::verif_harness! { #[kani::unwind(10)] fn c01_split_5() { check_split::<5>() } }
crate::verif_harness! { #[kani::unwind(12)] fn c01_split_7() { check_split::<7>() } }

// ------------------------------------------------------------------------------------- generation (C12)
// getentropy(3) is the environment: it is asked for some number of bytes, returns an arbitrary
// status and, on success, arbitrary bytes.
static mut ENT_CALLS: usize = 0;
static mut ENT_LEN: usize = 0;
static mut ENT_BYTES: [u8; 32] = [0; 32];
static mut ENT_RC: i32 = 0;

unsafe fn getentropy_stub(buffer: *mut u8, len: usize) -> std::os::raw::c_int {
    ENT_CALLS += 1;
    ENT_LEN = len;
    let rc: i32 = kani::any();
    ENT_RC = rc;
    if rc >= 0 {
        let bytes: [u8; 32] = kani::any();
        ENT_BYTES = bytes;
        let mut i = 0;
        while i < len && i < 32 {
            *buffer.add(i) = bytes[i];
            i += 1;
        }
    }
    rc
}

mnemonic_harness! {
    #[kani::stub(crate::rand::getentropy, getentropy_stub)]
    #[kani::unwind(36)]
    fn c12_random() {
        let words: usize = kani::any();
        unsafe {
            ENT_CALLS = 0;
            HASH_SEED_CALLS = 0;
        }
        let got = Mnemonic::random(Language::English, words);
        let valid = words == 12 || words == 15 || words == 18 || words == 21 || words == 24;
        if stubs_active() {
            let (calls, req, rc) = unsafe { (ENT_CALLS, ENT_LEN, ENT_RC) };
            kani::cover!(valid && rc >= 0 && words == 24, "24 words generated");
            kani::cover!(valid && rc >= 0 && words == 15, "15 words generated");
            kani::cover!(valid && rc < 0, "entropy source failed");
            kani::cover!(!valid && words > 24, "unsupported length");
            kani::cover!(valid && rc > 0, "positive status treated as success");
            match &got {
                Ok(m) => {
                    assert!(valid, "unsupported length accepted");
                    assert!(calls == 1, "exactly one entropy request per generation");
                    assert!(rc >= 0, "entropy failure ignored");
                    assert!(req == words * 4 / 3, "entropy request is not 4/3 bytes per word");
                    assert!(m.len == req, "entropy length");
                    let ent = unsafe { ENT_BYTES };
                    let mut i = 0;
                    while i < req {
                        assert!(m.buf[i] == ent[i], "entropy byte does not come from the OS source");
                        i += 1;
                    }
                    let hash = expected_hash(&ent[..req]);
                    let mut i = 0;
                    while i < 32 {
                        assert!(m.buf[req + i] == hash[i], "checksum is not the hash of the entropy");
                        i += 1;
                    }
                    assert!(m.mnemonic_length() == words, "reported length");
                }
                Err(_) => {
                    assert!(!valid || (calls == 1 && rc < 0), "generation failed although the entropy source succeeded");
                    assert!(valid || calls == 0, "entropy requested for an unsupported length");
                }
            }
        } else {
            // native replay: the real getentropy cannot be injected; check what can be observed
            match &got {
                Ok(m) => {
                    assert!(valid, "unsupported length accepted");
                    assert!(m.mnemonic_length() == words && m.len == words * 4 / 3);
                    let hash: [u8; 32] = Sha256::digest(&m.buf[..m.len]).into();
                    assert!(m.buf[m.len..m.len + 32] == hash, "checksum is not the hash of the entropy");
                    let back = Mnemonic::from_phrase_str(&m.to_phrase()).expect("generated phrase must parse back");
                    assert!(back.buf == m.buf && back.len == m.len);
                    // no entropy byte may be constant or repeated across invocations
                    let mut varies = [false; 32];
                    for _ in 0..64 {
                        let o = Mnemonic::random(Language::English, words).unwrap();
                        for i in 0..m.len {
                            if o.buf[i] != m.buf[i] {
                                varies[i] = true;
                            }
                        }
                    }
                    assert!(varies[..m.len].iter().all(|v| *v), "an entropy byte is constant across invocations");
                }
                Err(_) => assert!(!valid, "generation failed for a supported length"),
            }
        }
        core::mem::forget(got);
    }
}

// rand::get_entropy on its own: one request for exactly the slice, negative status -> Err.
mnemonic_harness! {
    #[kani::stub(crate::rand::getentropy, getentropy_stub)]
    #[kani::unwind(36)]
    fn c12_get_entropy() {
        let n: usize = kani::any();
        kani::assume(n <= 32);
        let mut buf = [0u8; 32];
        unsafe { ENT_CALLS = 0; }
        let got = crate::rand::get_entropy(&mut buf[..n]);
        if stubs_active() {
            let (calls, req, rc) = unsafe { (ENT_CALLS, ENT_LEN, ENT_RC) };
            kani::cover!(rc < 0, "failure");
            kani::cover!(rc >= 0 && n == 32, "32 bytes");
            assert!(calls == 1 && req == n);
            assert!(got.is_ok() == (rc >= 0), "status mapping");
            if got.is_ok() {
                let ent = unsafe { ENT_BYTES };
                let mut i = 0;
                while i < n {
                    assert!(buf[i] == ent[i]);
                    i += 1;
                }
            }
        } else {
            assert!(got.is_ok());
        }
        core::mem::forget(got);
    }
}
